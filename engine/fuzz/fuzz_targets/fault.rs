#![no_main]
//! Engine Z / fault: fuzzer bytes -> (consumer, liar size, parameter, fault script) (C17). Under ASan
//! an out-of-bounds read or write inside the crate is reported directly; leaks of crate-allocated
//! blocks are left to the oracle-allocator runs (LeakSanitizer is off: panics leak their payloads).
use libfuzzer_sys::fuzz_target;
use vf::fault::{run_fcase, FCase};

fuzz_target!(|data: &[u8]| {
    static ONCE: std::sync::Once = std::sync::Once::new();
    ONCE.call_once(|| vf::util::silence_panics());
    if data.len() < 4 {
        return;
    }
    let case = FCase { consumer: data[0] as u16, n: data[1] as u16, param: data[2] as u16 | ((data[3] as u16) << 8), script: data[4..].iter().take(24).copied().collect() };
    let out = run_fcase(&case);
    if let Some((k, d)) = out.viol {
        if k != "leak" {
            eprintln!("VIOLATION C17 [{}] {}", k, d);
            eprintln!("case: {}", case.to_json());
            std::process::abort();
        }
    }
});
