#![no_main]
//! Engine Z / buf: fuzzer bytes -> (adapter tree, op sequence) for the read side (C09, C10, C12).
use arbitrary::Unstructured;
use libfuzzer_sys::fuzz_target;
use vf::bufeng::*;
use vf::bufrun::{run_bcase, BCase};

fn spec(u: &mut Unstructured, depth: u32) -> Option<Spec> {
    let t = u.arbitrary::<u8>().ok()?;
    if depth == 0 || t % 8 < 3 {
        let kind = u.arbitrary::<u8>().ok()? % NKINDS;
        let n = (u.arbitrary::<u8>().ok()? % 20) as usize;
        let seed = u.arbitrary::<u8>().ok()?;
        let pre = u.arbitrary::<u8>().ok()?;
        return Some(Spec::Leaf { kind, data: (0..n).map(|i| seed.wrapping_add((i * 7) as u8) | 1).collect(), pre });
    }
    Some(match t % 8 {
        3 | 4 => Spec::Chain(Box::new(spec(u, depth - 1)?), Box::new(spec(u, depth - 1)?)),
        5 => {
            let l = u.arbitrary::<u8>().ok()?;
            Spec::Take(Box::new(spec(u, depth - 1)?), if l == 255 { usize::MAX } else { (l % 40) as usize })
        }
        6 => Spec::MutRef(Box::new(spec(u, depth - 1)?)),
        _ => Spec::Boxed(Box::new(spec(u, depth - 1)?)),
    })
}

fuzz_target!(|data: &[u8]| {
    static ONCE: std::sync::Once = std::sync::Once::new();
    ONCE.call_once(|| vf::util::silence_panics());
    let mut u = Unstructured::new(data);
    let Some(sp) = spec(&mut u, 4) else { return };
    let mut ops = Vec::new();
    while !u.is_empty() && ops.len() < 16 {
        let Ok(c) = u.arbitrary::<u8>() else { break };
        let Ok(a) = u.arbitrary::<u16>() else { break };
        let Ok(b) = u.arbitrary::<u16>() else { break };
        ops.push((1 + c % 18, a as u32 % 4096, b as u32 % 4096));
    }
    let case = BCase { spec: sp, ops };
    let mut st = BStats::default();
    let out = run_bcase(&case, &mut st, false);
    if let Some(v) = out.viols.first() {
        eprintln!("VIOLATION {} [{}] step {}: {}", v.prop, v.oracle, v.step, v.detail);
        eprintln!("case: {}", case.to_json());
        std::process::abort();
    }
});
