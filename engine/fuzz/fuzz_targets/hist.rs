#![no_main]
//! Engine Z / hist: fuzzer bytes -> handle history (same case language and interpreter as engine H),
//! value-model + C13 + pointer-relation oracles inside the target, ASan for memory errors.
use arbitrary::Unstructured;
use libfuzzer_sys::fuzz_target;
use vf::hist::*;
use vf::histrun::{run_case, Case};

fn decode(data: &[u8]) -> Option<(Case, usize)> {
    let mut u = Unstructured::new(data);
    let parity = (u.arbitrary::<u8>().ok()? & 1) as usize;
    let perm = u.arbitrary::<u16>().ok()? as u32;
    let mut ops = Vec::new();
    while !u.is_empty() && ops.len() < 48 {
        let ki = u.arbitrary::<u8>().ok()? as usize;
        let kk = k::ALL[ki % k::ALL.len()];
        let st = u.arbitrary::<u8>().ok()?;
        let mut arg = |u: &mut Unstructured| -> Option<u32> {
            let sel = u.arbitrary::<u8>().ok()?;
            Some(if sel < 160 { (sel % 32) as u32 } else { ARG_TABLE + (u.arbitrary::<u16>().ok()? as u32) })
        };
        let a = arg(&mut u)?;
        let b = arg(&mut u)?;
        let c = arg(&mut u)?;
        ops.push(Op { k: kk, s: st % 6, t: (st >> 4) % 6, a, b, c });
    }
    Some((Case { ops, perm }, parity))
}

fuzz_target!(|data: &[u8]| {
    static ONCE: std::sync::Once = std::sync::Once::new();
    ONCE.call_once(|| vf::util::silence_panics());
    let Some((case, parity)) = decode(data) else { return };
    let mut st = Stats::default();
    let out = run_case(&case, parity, &mut st, &RunOpts { trace: false, digest: false });
    if let Some(v) = out.viols.first() {
        // strict: any oracle violation is a crash for libFuzzer; the artifact is the replay
        eprintln!("VIOLATION {} [{}] step {}: {}", v.prop, v.oracle, v.step, v.detail);
        eprintln!("case: {}", vf::histrun::case_json(&case, parity));
        std::process::abort();
    }
});
