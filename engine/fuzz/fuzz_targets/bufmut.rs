#![no_main]
//! Engine Z / bufmut: fuzzer bytes -> (write-target tree, write sequence) (C11, C12).
use arbitrary::Unstructured;
use libfuzzer_sys::fuzz_target;
use vf::bufmut::*;

fn spec(u: &mut Unstructured, depth: u32) -> Option<WSpec> {
    let t = u.arbitrary::<u8>().ok()?;
    if depth == 0 || t % 8 < 3 {
        return Some(WSpec::Leaf { kind: u.arbitrary::<u8>().ok()? % WKINDS, size: (u.arbitrary::<u8>().ok()? % 48) as usize, prefill: (u.arbitrary::<u8>().ok()? % 6) as usize });
    }
    Some(match t % 8 {
        3 | 4 => WSpec::Chain(Box::new(spec(u, depth - 1)?), Box::new(spec(u, depth - 1)?)),
        5 => {
            let l = u.arbitrary::<u8>().ok()?;
            WSpec::Limit(Box::new(spec(u, depth - 1)?), if l == 255 { usize::MAX } else { (l % 40) as usize })
        }
        6 => WSpec::MutRef(Box::new(spec(u, depth - 1)?)),
        _ => WSpec::Boxed(Box::new(spec(u, depth - 1)?)),
    })
}

fuzz_target!(|data: &[u8]| {
    static ONCE: std::sync::Once = std::sync::Once::new();
    ONCE.call_once(|| vf::util::silence_panics());
    let mut u = Unstructured::new(data);
    let Some(sp) = spec(&mut u, 4) else { return };
    let mut ops = Vec::new();
    while !u.is_empty() && ops.len() < 12 {
        let Ok(c) = u.arbitrary::<u8>() else { break };
        let Ok(a) = u.arbitrary::<u16>() else { break };
        let Ok(b) = u.arbitrary::<u16>() else { break };
        let Ok(v) = u.arbitrary::<u64>() else { break };
        ops.push((c % 13, a as u32 % 4096, b as u32 % 4096, v));
    }
    let case = WCase { spec: sp, ops };
    let mut st = WStats::default();
    let (viols, _, _, _) = run_wcase(&case, &mut st, false);
    if let Some(v) = viols.first() {
        eprintln!("VIOLATION {} [{}] step {}: {}", v.0, v.1, v.3, v.2);
        eprintln!("case: {}", case.to_json());
        std::process::abort();
    }
});
