// included into hist.rs

#[derive(Clone, Copy, Default)]
pub struct HInfo {
    pub kind: u8, // 0 empty, 1 Bytes, 2 BytesMut, 3 Vec
    pub ptr: usize,
    pub len: usize,
    pub cap: usize,
    pub blk: Option<BlockInfo>,
    pub readable: bool,
}

pub struct RunOpts {
    pub trace: bool,
    pub digest: bool,
}

pub struct Interp<'a> {
    pub slots: Vec<Slot>,
    pub owners: Vec<Arc<OwnerStats>>,
    pub owner_may_panic: Vec<bool>,
    pub st: &'a mut Stats,
    pub step: usize,
    pub cur: Op,
    pub viols: Vec<Violation>,
    pub flags: Flags,
    pub trace: Option<Vec<String>>,
    pub born: u32,
    pub multi_blocks: Vec<u64>,
    pub digest: Option<Vec<u64>>,
    pub dg: u64,
    pub infos: [HInfo; NSLOT],
    pub ended: bool,
}

macro_rules! tr {
    ($self:expr, $($arg:tt)*) => {
        if let Some(t) = $self.trace.as_mut() {
            t.push(format!($($arg)*));
        }
    };
}

impl<'a> Interp<'a> {
    pub fn new(st: &'a mut Stats, opts: &RunOpts) -> Self {
        let mut slots = Vec::with_capacity(NSLOT);
        for _ in 0..NSLOT {
            slots.push(Slot::Empty);
        }
        Interp {
            slots,
            owners: Vec::new(),
            owner_may_panic: Vec::new(),
            st,
            step: 0,
            cur: Op::default(),
            viols: Vec::new(),
            flags: Flags::default(),
            trace: if opts.trace { Some(Vec::new()) } else { None },
            born: 0,
            multi_blocks: Vec::new(),
            digest: if opts.digest { Some(Vec::new()) } else { None },
            dg: 0xcbf29ce484222325,
            infos: [HInfo::default(); NSLOT],
            ended: false,
        }
    }

    pub fn viol(&mut self, prop: &'static str, oracle: &'static str, detail: String) {
        if self.viols.iter().any(|v| v.prop == prop) {
            return;
        }
        self.viols.push(Violation { prop, oracle, detail, step: self.step, op: self.cur, soft: false });
    }
    /// a violation that does not end the case
    pub fn viol_soft(&mut self, prop: &'static str, oracle: &'static str, detail: String) {
        let n = self.viols.len();
        self.viol(prop, oracle, detail);
        if self.viols.len() > n {
            self.viols[n].soft = true;
        }
    }
    pub fn hard_viol(&self) -> bool {
        self.viols.iter().any(|v| !v.soft)
    }

    #[inline]
    pub fn dg_u(&mut self, x: u64) {
        if self.digest.is_some() {
            let mut h = self.dg;
            for i in 0..8 {
                h ^= (x >> (i * 8)) & 0xff;
                h = h.wrapping_mul(0x100000001b3);
            }
            self.dg = h;
        }
    }
    pub fn dg_bytes(&mut self, b: &[u8]) {
        if self.digest.is_some() {
            let mut h = self.dg;
            for &x in b {
                h ^= x as u64;
                h = h.wrapping_mul(0x100000001b3);
            }
            self.dg = h;
            self.dg_u(b.len() as u64);
        }
    }

    pub fn new_model(&mut self, bytes: Vec<u8>, origin: Origin, depth: u8) -> Model {
        self.born += 1;
        Model { bytes, origin, depth, born: self.born }
    }

    pub fn free_slot(&self) -> Option<usize> {
        self.slots.iter().position(|s| matches!(s, Slot::Empty))
    }

    /// first slot of the wanted kind, searching cyclically from `start`
    pub fn find(&self, start: u8, kind: u8) -> Option<usize> {
        for i in 0..NSLOT {
            let j = (start as usize + i) % NSLOT;
            if self.slots[j].kind() == kind {
                return Some(j);
            }
        }
        None
    }
    pub fn find_other(&self, start: u8, kind: u8, not: usize) -> Option<usize> {
        for i in 0..NSLOT {
            let j = (start as usize + i) % NSLOT;
            if j != not && self.slots[j].kind() == kind {
                return Some(j);
            }
        }
        None
    }

    pub fn take(&mut self, i: usize) -> Slot {
        std::mem::replace(&mut self.slots[i], Slot::Empty)
    }

    fn info_of(s: &Slot) -> HInfo {
        match s {
            Slot::Empty => HInfo::default(),
            Slot::B(b, _) => {
                let p = b.as_ptr() as usize;
                HInfo { kind: 1, ptr: p, len: b.len(), cap: b.len(), blk: oalloc::block_of(p), readable: true }
            }
            Slot::M(m, _) => {
                let p = m.as_ptr() as usize;
                HInfo { kind: 2, ptr: p, len: m.len(), cap: m.capacity(), blk: oalloc::block_of(p), readable: true }
            }
            Slot::V(v, _) => {
                let p = v.as_ptr() as usize;
                HInfo {
                    kind: 3,
                    ptr: p,
                    len: v.len(),
                    cap: v.capacity(),
                    blk: if v.capacity() > 0 { oalloc::block_of(p) } else { None },
                    readable: true,
                }
            }
        }
    }

    pub fn refresh_infos(&mut self) {
        for i in 0..NSLOT {
            self.infos[i] = Self::info_of(&self.slots[i]);
        }
    }

    /// others (B or M) relative to the block `serial`, excluding `me`: (handles whose address lies in
    /// the block's closed range, non-empty handles whose address lies in its half-open range).
    /// Address tests instead of per-handle block attribution keep this sound in packed mode, where a
    /// one-past-the-end address is also the start of the next block (over-counting `any` only makes
    /// the oracle assert less).
    fn others_in_block(&self, me: usize, serial: u64) -> (usize, usize) {
        let blk = self.infos.iter().filter_map(|h| h.blk).find(|b| b.serial == serial);
        let Some(b) = blk else { return (0, 0) };
        let (lo, hi) = (b.ptr, b.ptr + b.size);
        let mut any = 0;
        let mut nonempty = 0;
        for j in 0..NSLOT {
            if j == me {
                continue;
            }
            let o = &self.infos[j];
            if o.kind == 1 || o.kind == 2 {
                if o.ptr >= lo && o.ptr <= hi {
                    any += 1;
                }
                if o.len > 0 && o.ptr >= lo && o.ptr < hi {
                    nonempty += 1;
                }
            }
        }
        (any, nonempty)
    }

    /// All per-step oracles. `pre`: (len, cap) of every slot before the op if the op panicked as
    /// expected (then nothing may have changed).
    pub fn check_all(&mut self, pre_after_panic: Option<&[HInfo; NSLOT]>) {
        // ---- allocator complaints (C02)
        oalloc::check_live_redzones();
        if oalloc::has_violations() {
            let mut v = Vec::new();
            oalloc::take_violations(&mut v);
            for a in v {
                let (oracle, p2): (&'static str, Option<&'static str>) = match a.kind {
                    VKind::DoubleFree => ("double-free", Some("C03")),
                    VKind::WildFree => ("wild-free", None),
                    VKind::LayoutMismatch => ("layout-inexact-free", None),
                    VKind::RedZoneFront => ("red-zone-front(out-of-bounds write)", None),
                    VKind::RedZoneBack => ("red-zone-back(out-of-bounds write)", None),
                    VKind::WriteAfterFree => ("write-after-free", None),
                    VKind::TableOverflow => ("ledger-overflow", None),
                };
                let d = format!(
                    "{:?}: block ptr={:#x} size={} align={} serial={} / freed with size={} align={}",
                    a.kind, a.ptr, a.size, a.align, a.serial, a.got_size, a.got_align
                );
                self.viol("C02", oracle, d.clone());
                if let Some(p) = p2 {
                    self.viol(p, oracle, d);
                }
            }
        }
        self.refresh_infos();

        // ---- C02 containment / dangling
        let ledger = oalloc::installed();
        for i in 0..NSLOT {
            if !ledger {
                break;
            }
            let h = self.infos[i];
            let span = match h.kind {
                1 if h.len > 0 => h.len,
                2 if h.cap > 0 => h.cap,
                _ => continue,
            };
            self.st.c02_ranges += 1;
            let mut ok = false;
            let mut why = String::new();
            match h.blk {
                Some(b) => {
                    if b.state == BState::Quarantined {
                        why = format!("points into freed block (serial {}, size {})", b.serial, b.size);
                    } else if h.ptr.checked_add(span).map_or(true, |e| e > b.ptr + b.size) {
                        why = format!(
                            "range [{:#x},+{}) leaves its block [{:#x},+{}) by {} bytes",
                            h.ptr,
                            span,
                            b.ptr,
                            b.size,
                            (h.ptr.wrapping_add(span)).wrapping_sub(b.ptr + b.size)
                        );
                    } else {
                        ok = true;
                    }
                }
                None => {
                    if h.kind == 1 && in_pool(h.ptr, span) {
                        ok = true;
                    } else {
                        why = format!("range [{:#x},+{}) lies in no live allocation known to the ledger", h.ptr, span);
                    }
                }
            }
            if !ok {
                // if the *length* part is still inside a live block the contents may be read
                let len_ok = match h.blk {
                    Some(b) => b.state == BState::Live && h.ptr + h.len <= b.ptr + b.size,
                    None => false,
                };
                self.infos[i].readable = len_ok;
                let d = format!("slot {} ({}) {}", i, if h.kind == 1 { "Bytes" } else { "BytesMut" }, why);
                let dangling = matches!(h.blk, Some(b) if b.state == BState::Quarantined);
                // the part of the range behind the handle's own block: does it lie in OTHER tracked blocks (allocators that
                // place blocks back to back), and is any of them already freed?
                let (mut over_live, mut over_freed) = (false, false);
                if let (Some(b), false) = (h.blk, dangling) {
                    let end = h.ptr.saturating_add(span);
                    let mut cur = b.ptr + b.size;
                    over_live = cur < end;
                    while cur < end {
                        match oalloc::block_of_byte(cur) {
                            Some(nb) if nb.size > 0 => {
                                if nb.state != BState::Live {
                                    over_freed = true;
                                    over_live = false;
                                }
                                cur = nb.ptr + nb.size;
                            }
                            _ => {
                                over_live = false;
                                break;
                            }
                        }
                    }
                }
                if over_live && !over_freed {
                    // the handle covers storage of a neighbouring live allocation it holds no reference on. Nothing freed is
                    // involved yet, so the case goes on: what happens when that storage is released belongs to C03
                    self.viol_soft("C02", "handle-range-outside-allocation", d.clone());
                    if h.kind == 2 {
                        self.viol_soft("C04", "region-not-in-single-live-allocation", d);
                    }
                    continue;
                }
                self.viol("C02", if dangling { "dangling-handle" } else { "handle-range-outside-allocation" }, d.clone());
                if dangling || over_freed {
                    self.viol("C03", "freed-while-handle-alive", d.clone());
                }
                if h.kind == 2 {
                    self.viol("C04", "region-not-in-single-live-allocation", d);
                }
            }
        }

        // ---- C01 value model
        for i in 0..NSLOT {
            if !self.infos[i].readable {
                continue;
            }
            let mut bad: Option<String> = None;
            match &self.slots[i] {
                Slot::Empty => {}
                Slot::B(b, m) => {
                    self.st.c01_reads += 1;
                    if b.len() != m.bytes.len() {
                        bad = Some(format!("len()={} model={}", b.len(), m.bytes.len()));
                    } else if &b[..] != &m.bytes[..] {
                        bad = Some(diff_msg(&b[..], &m.bytes));
                    } else if b.as_ref() != &m.bytes[..] || b.chunk() != &m.bytes[..] || b.remaining() != m.bytes.len() {
                        bad = Some("as_ref()/chunk()/remaining() disagree with deref".into());
                    }
                }
                Slot::M(b, m) => {
                    self.st.c01_reads += 1;
                    if b.len() != m.bytes.len() {
                        bad = Some(format!("len()={} model={}", b.len(), m.bytes.len()));
                    } else if &b[..] != &m.bytes[..] {
                        bad = Some(diff_msg(&b[..], &m.bytes));
                    } else if b.as_ref() != &m.bytes[..] || b.chunk() != &m.bytes[..] || b.remaining() != m.bytes.len() {
                        bad = Some("as_ref()/chunk()/remaining() disagree with deref".into());
                    } else if b.capacity() < b.len() {
                        bad = Some(format!("capacity()={} < len()={}", b.capacity(), b.len()));
                    }
                }
                Slot::V(v, m) => {
                    if v[..] != m.bytes[..] {
                        bad = Some(diff_msg(&v[..], &m.bytes));
                    }
                }
            }
            if let Some(d) = bad {
                let kind = self.infos[i].kind;
                let poisoned = match &self.slots[i] {
                    Slot::M(b, m) => wrong_bytes_are_poison(&b[..], &m.bytes),
                    Slot::V(v, m) => wrong_bytes_are_poison(&v[..], &m.bytes),
                    _ => false, // a Bytes over a freed block is reported by the range oracles
                };
                if poisoned {
                    self.viol("C02", "read-of-freed-memory", format!("slot {} ({}) owns live storage whose contents were copied out of a freed block: {}", i, ["-", "Bytes", "BytesMut", "Vec"][kind as usize], d));
                }
                self.viol(
                    "C01",
                    "value-model",
                    format!("slot {} ({}): {}", i, ["-", "Bytes", "BytesMut", "Vec"][kind as usize], d),
                );
            }
        }

        // ---- C13: nothing changed after a caught panic
        if let Some(pre) = pre_after_panic {
            self.st.c13_panics_checked += 1;
            for i in 0..NSLOT {
                let a = self.infos[i];
                let b = pre[i];
                if a.kind != b.kind || a.len != b.len || (a.kind == 2 && a.cap != b.cap) {
                    self.viol(
                        "C13",
                        "state-changed-by-panicking-call",
                        format!(
                            "slot {}: before kind={} len={} cap={}, after kind={} len={} cap={}",
                            i, b.kind, b.len, b.cap, a.kind, a.len, a.cap
                        ),
                    );
                }
            }
            // contents are covered by the C01 comparison above (model untouched); mirror it
            if self.viols.iter().any(|v| v.prop == "C01" && v.step == self.step) {
                let d = self.viols.iter().find(|v| v.prop == "C01").map(|v| v.detail.clone()).unwrap_or_default();
                self.viol("C13", "contents-changed-by-panicking-call", d);
            }
        }

        // ---- C04 exclusivity
        for i in 0..NSLOT {
            let a = self.infos[i];
            if a.kind != 2 || a.cap == 0 {
                continue;
            }
            for j in 0..NSLOT {
                if i == j {
                    continue;
                }
                let b = self.infos[j];
                let (bs, bl) = match b.kind {
                    2 if b.cap > 0 && j > i => (b.ptr, b.cap),
                    1 if b.len > 0 => (b.ptr, b.len),
                    _ => continue,
                };
                self.st.c04_pairs += 1;
                let a_end = a.ptr.saturating_add(a.cap);
                let b_end = bs.saturating_add(bl);
                if a.ptr < b_end && bs < a_end {
                    self.viol(
                        "C04",
                        "regions-overlap",
                        format!(
                            "BytesMut slot {} [{:#x},+{}) overlaps {} slot {} [{:#x},+{})",
                            i,
                            a.ptr,
                            a.cap,
                            if b.kind == 2 { "BytesMut" } else { "Bytes" },
                            j,
                            bs,
                            bl
                        ),
                    );
                }
            }
        }

        // ---- block population facts
        for i in 0..NSLOT {
            let h = self.infos[i];
            if h.kind != 1 && h.kind != 2 {
                continue;
            }
            if let Some(b) = h.blk {
                let (any, _) = self.others_in_block(i, b.serial);
                if any >= 1 {
                    self.flags.shared_block = true;
                    if !self.multi_blocks.contains(&b.serial) {
                        self.multi_blocks.push(b.serial);
                    }
                    if any >= 2 {
                        self.flags.three_on_block = true;
                    }
                    if h.kind == 2 {
                        self.flags.mm_or_mb_shared = true;
                    }
                }
            }
        }

        // ---- C08 truthful uniqueness
        for i in 0..NSLOT {
            let h = self.infos[i];
            if h.kind != 1 {
                continue;
            }
            let (origin, uniq) = match &self.slots[i] {
                Slot::B(b, m) => (m.origin, b.is_unique()),
                _ => continue,
            };
            self.dg_u(uniq as u64);
            let mut must_false = origin != Origin::Heap;
            let mut must_true = false;
            if !ledger && origin == Origin::Heap {
                continue;
            }
            let mut was_multi = false;
            // packed mode: the block of an empty handle at a block boundary is ambiguous: leave it open
            let ambiguous = h.len == 0 && oalloc::packed();
            if let (Some(b), false) = (h.blk, ambiguous) {
                let (any, nonempty) = self.others_in_block(i, b.serial);
                if nonempty > 0 {
                    must_false = true;
                }
                if origin == Origin::Heap && h.len > 0 && any == 0 && b.state == BState::Live {
                    must_true = true;
                }
                was_multi = self.multi_blocks.contains(&b.serial);
            }
            if must_false {
                self.st.c08_false += 1;
                if uniq {
                    self.viol(
                        "C08",
                        "is_unique-true-but-shared-or-not-heap",
                        format!("slot {} origin {:?} len {}: is_unique() returned true", i, origin, h.len),
                    );
                }
            } else if must_true {
                self.st.c08_true += 1;
                if !uniq {
                    self.viol(
                        "C08",
                        "is_unique-false-but-sole-handle",
                        format!("slot {} len {}: no other handle in its allocation, is_unique() returned false", i, h.len),
                    );
                }
            } else {
                self.st.c08_open += 1;
            }
            if (must_false || must_true) && was_multi {
                self.flags.c08_regained = true;
            }
        }

        // ---- C03 owners and orphans
        for k in 0..self.owners.len() {
            self.st.c03_owner_checks += 1;
            let drops = self.owners[k].drops.load(SeqCst);
            let calls = self.owners[k].as_ref_calls.load(SeqCst);
            let mut any = false;
            let mut nonempty = false;
            for s in &self.slots {
                if let Slot::B(b, m) = s {
                    if m.origin == Origin::Owner(k) {
                        any = true;
                        if !b.is_empty() {
                            nonempty = true;
                        }
                    }
                }
            }
            if calls > 1 {
                self.viol("C03", "owner-as_ref-called-more-than-once", format!("owner {}: {} calls", k, calls));
            }
            if drops > 1 {
                self.viol("C03", "owner-dropped-twice", format!("owner {}: {} drops", k, drops));
                self.viol("C02", "owner-dropped-twice", format!("owner {}: {} drops", k, drops));
            }
            if nonempty && drops > 0 {
                self.viol("C03", "owner-dropped-while-view-alive", format!("owner {} dropped, a non-empty view is alive", k));
            }
            if !any && drops != 1 {
                self.viol(
                    "C03",
                    "owner-not-dropped-with-last-handle",
                    format!("owner {}: no handle of its lineage is left, drops={}", k, drops),
                );
            }
        }
        if ledger {
            let mut live = Vec::new();
            oalloc::live_blocks(&mut live);
            for b in live {
                if b.align != 1 || b.size == 0 {
                    continue;
                }
                self.st.c03_orphan_checks += 1;
                let lo = b.ptr;
                let hi = b.ptr + b.size;
                let mut referenced = false;
                for h in &self.infos {
                    if h.kind != 0 && (h.kind != 3 || h.cap > 0) && h.ptr >= lo && h.ptr <= hi {
                        referenced = true;
                        break;
                    }
                }
                if !referenced {
                    for o in &self.owners {
                        let p = o.buf_ptr.load(SeqCst);
                        if o.drops.load(SeqCst) == 0 && p >= lo && p <= hi {
                            referenced = true;
                        }
                    }
                }
                if !referenced {
                    self.viol(
                        "C03",
                        "buffer-outlives-last-handle",
                        format!("byte buffer block [{:#x},+{}) serial {} is live but no handle refers to it", b.ptr, b.size, b.serial),
                    );
                }
            }
        }

        // ---- digest of the observable state (C16)
        if self.digest.is_some() {
            for i in 0..NSLOT {
                let h = self.infos[i];
                self.dg_u(h.kind as u64);
                match &self.slots[i] {
                    Slot::Empty => {}
                    Slot::B(b, _) => {
                        if h.readable {
                            let v = b.to_vec();
                            self.dg_bytes(&v);
                        }
                    }
                    Slot::M(b, _) => {
                        let cap = b.capacity() as u64;
                        if h.readable {
                            let v = b.to_vec();
                            self.dg_bytes(&v);
                        }
                        self.dg_u(cap);
                    }
                    Slot::V(v, _) => {
                        let v = v.clone();
                        self.dg_bytes(&v);
                    }
                }
            }
            let d = self.dg;
            if let Some(v) = self.digest.as_mut() {
                v.push(d);
            }
        }
    }

    /// note a drop for the "out of creation order" fact
    fn note_drop(&mut self, i: usize) {
        let h = self.infos[i];
        let born = match &self.slots[i] {
            Slot::B(_, m) | Slot::M(_, m) | Slot::V(_, m) => m.born,
            _ => return,
        };
        if let Some(b) = h.blk {
            for j in 0..NSLOT {
                if j == i {
                    continue;
                }
                if let Some(ob) = self.infos[j].blk {
                    if ob.serial == b.serial {
                        let ob_born = match &self.slots[j] {
                            Slot::B(_, m) | Slot::M(_, m) => m.born,
                            _ => continue,
                        };
                        if ob_born > born {
                            // a younger sibling outlives this one: fine, creation order
                        } else {
                            self.flags.out_of_order_drop = true;
                        }
                    }
                }
            }
            if h.kind != 3 && h.ptr != b.ptr {
                self.flags.recomputed_free = true;
            }
        }
    }

    /// run a whole case; returns after the first step with a violation
    pub fn run(&mut self, ops: &[Op], perm: u32) {
        self.refresh_infos();
        for (n, op) in ops.iter().enumerate() {
            self.step = n;
            self.cur = *op;
            self.exec(*op);
            if self.hard_viol() || self.viols.len() > 2 {
                self.ended = true;
                return;
            }
            if self.flags.c13_shared_panic && self.flags.c13_after < 250 {
                self.flags.c13_after += 1;
            }
        }
        // final phase: drop the survivors in the generated permutation
        self.step = ops.len();
        let mut alive: Vec<usize> = (0..NSLOT).filter(|&i| self.slots[i].kind() != 0).collect();
        let mut code = perm as usize;
        while !alive.is_empty() {
            let n = alive.len();
            let pick = code % n;
            code /= n;
            let i = alive.remove(pick);
            self.cur = Op { k: k::BDrop, s: i as u8, ..Op::default() };
            self.note_drop(i);
            let s = self.take(i);
            tr!(self, "final: drop slot {}", i);
            let (r, _) = call(move || drop(s));
            if r.is_err() {
                self.viol("C01", "unexpected-panic", format!("drop of slot {} panicked", i));
            }
            if self.flags.panics > 0 {
                self.flags.panic_then_free = true;
            }
            self.check_all(None);
            self.step += 1;
            if self.hard_viol() || self.viols.len() > 2 {
                self.ended = true;
                return;
            }
        }
    }
}

/// every byte that differs from the model is the value the oracle allocator writes into a block when it is freed: the bytes were
/// copied out of memory that had already been released (C02 "access memory after it was freed"), not merely mixed up
fn wrong_bytes_are_poison(got: &[u8], want: &[u8]) -> bool {
    got.len() == want.len() && got != want && got.iter().zip(want.iter()).all(|(g, w)| g == w || *g == oalloc::POISON)
}

fn diff_msg(got: &[u8], want: &[u8]) -> String {
    let n = got.len().min(want.len());
    let at = (0..n).find(|&i| got[i] != want[i]).unwrap_or(n);
    let g: Vec<u8> = got.iter().skip(at).take(8).cloned().collect();
    let w: Vec<u8> = want.iter().skip(at).take(8).cloned().collect();
    format!("contents differ at byte {} of {}: got {:02x?}.. want {:02x?}..", at, want.len(), g, w)
}

include!("hist_ops.rs");
