//! Engine B, write side: trees of the crate's BufMut implementors / adapters with guard bytes
//! around fixed-size leaves, vs a model of expected byte streams (C11) and the structural model of
//! Limit / Chain / Writer (C12).

use crate::bufeng::{build as build_read, Arena as RArena, Spec};
use crate::bufnode::*;
use crate::util::{self, fnv64, Args};
use bytes::buf::UninitSlice;
use bytes::{Buf, BufMut, BytesMut};
use proptest::prelude::*;
use proptest::test_runner::{Config, RngAlgorithm, RngSeed, TestCaseError, TestError, TestRng, TestRunner};
use serde_json::{json, Value};
use std::collections::HashSet;
use std::mem::MaybeUninit;
use std::panic::{catch_unwind, AssertUnwindSafe};

const G: usize = 64;
const GUARD: u8 = 0xA5;
const BODY: u8 = 0xC3;
const GROW: usize = usize::MAX / 4;

#[derive(Clone, Debug, PartialEq)]
pub enum WSpec {
    Leaf { kind: u8, size: usize, prefill: usize },
    Chain(Box<WSpec>, Box<WSpec>),
    Limit(Box<WSpec>, usize),
    MutRef(Box<WSpec>),
    Boxed(Box<WSpec>),
}
pub const WKINDS: u8 = 7;
pub const WKIND_NAMES: [&str; 7] = ["Vec::new", "Vec::with_capacity", "BytesMut(vec)", "BytesMut(shared,bounded cap)", "&mut [u8]", "&mut [MaybeUninit<u8>]", "BytesMut(offset)"];

impl WSpec {
    pub fn to_json(&self) -> Value {
        match self {
            WSpec::Leaf { kind, size, prefill } => json!({"n": "leaf", "k": kind, "s": size, "p": prefill}),
            WSpec::Chain(a, b) => json!({"n": "chain", "a": a.to_json(), "b": b.to_json()}),
            WSpec::Limit(i, l) => json!({"n": "limit", "i": i.to_json(), "l": (*l as u64).to_string()}),
            WSpec::MutRef(i) => json!({"n": "ref", "i": i.to_json()}),
            WSpec::Boxed(i) => json!({"n": "box", "i": i.to_json()}),
        }
    }
    pub fn from_json(v: &Value) -> Option<WSpec> {
        match v.get("n")?.as_str()? {
            "leaf" => Some(WSpec::Leaf { kind: v["k"].as_u64()? as u8, size: v["s"].as_u64()? as usize, prefill: v["p"].as_u64()? as usize }),
            "chain" => Some(WSpec::Chain(Box::new(WSpec::from_json(&v["a"])?), Box::new(WSpec::from_json(&v["b"])?))),
            "limit" => Some(WSpec::Limit(Box::new(WSpec::from_json(&v["i"])?), v["l"].as_str()?.parse::<u64>().ok()? as usize)),
            "ref" => Some(WSpec::MutRef(Box::new(WSpec::from_json(&v["i"])?))),
            "box" => Some(WSpec::Boxed(Box::new(WSpec::from_json(&v["i"])?))),
            _ => None,
        }
    }
    pub fn describe(&self) -> String {
        match self {
            WSpec::Leaf { kind, size, prefill } => format!("{}[size {} prefill {}]", WKIND_NAMES[(*kind % WKINDS) as usize], size, prefill),
            WSpec::Chain(a, b) => format!("Chain({}, {})", a.describe(), b.describe()),
            WSpec::Limit(i, l) => format!("Limit({}, {})", i.describe(), if *l == usize::MAX { "MAX".into() } else { l.to_string() }),
            WSpec::MutRef(i) => format!("&mut {}", i.describe()),
            WSpec::Boxed(i) => format!("Box({})", i.describe()),
        }
    }
    pub fn depth(&self) -> usize {
        match self {
            WSpec::Leaf { .. } => 0,
            WSpec::Chain(a, b) => 1 + a.depth().max(b.depth()),
            WSpec::Limit(i, _) | WSpec::MutRef(i) | WSpec::Boxed(i) => 1 + i.depth(),
        }
    }
}

/// model: expected byte stream per leaf
#[derive(Clone, Debug)]
pub enum WM {
    Leaf { fixed: Option<usize>, content: Vec<u8>, arena_ix: usize },
    Chain(Box<WM>, Box<WM>),
    Limit(Box<WM>, usize),
    Wrap(Box<WM>),
}
impl WM {
    pub fn room(&self) -> usize {
        match self {
            WM::Leaf { fixed: Some(n), content, .. } => n - content.len(),
            WM::Leaf { fixed: None, .. } => GROW,
            WM::Chain(a, b) => a.room().saturating_add(b.room()).min(GROW),
            WM::Limit(i, l) => i.room().min(*l),
            WM::Wrap(i) => i.room(),
        }
    }
    pub fn all_fixed(&self) -> bool {
        match self {
            WM::Leaf { fixed, .. } => fixed.is_some(),
            WM::Chain(a, b) => a.all_fixed() && b.all_fixed(),
            WM::Limit(i, _) | WM::Wrap(i) => i.all_fixed(),
        }
    }
    pub fn write(&mut self, bytes: &[u8]) {
        match self {
            WM::Leaf { content, .. } => content.extend_from_slice(bytes),
            WM::Chain(a, b) => {
                let x = a.room().min(bytes.len());
                a.write(&bytes[..x]);
                b.write(&bytes[x..]);
            }
            WM::Limit(i, l) => {
                i.write(bytes);
                *l -= bytes.len();
            }
            WM::Wrap(i) => i.write(bytes),
        }
    }
    /// room of the first leaf that still has room (the chunk an honest chunk_mut could at most expose)
    pub fn first_room(&self) -> usize {
        match self {
            WM::Leaf { .. } => self.room(),
            WM::Chain(a, b) => {
                if a.room() > 0 {
                    a.first_room()
                } else {
                    b.first_room()
                }
            }
            WM::Limit(i, l) => i.first_room().min(*l),
            WM::Wrap(i) => i.first_room(),
        }
    }
}

#[derive(Default)]
pub struct WArena {
    bufs: Vec<Box<[u8]>>,
    keep: Vec<BytesMut>,
}
impl WArena {
    fn fixed(&mut self, size: usize) -> (usize, *mut u8) {
        let mut b = vec![GUARD; G + size + G].into_boxed_slice();
        for x in &mut b[G..G + size] {
            *x = BODY;
        }
        let p = unsafe { b.as_mut_ptr().add(G) };
        self.bufs.push(b);
        (self.bufs.len() - 1, p)
    }
}

fn prefill_bytes(n: usize) -> Vec<u8> {
    (0..n).map(|i| 0x30 + (i % 10) as u8).collect()
}

pub fn build_w(spec: &WSpec, arena: &mut WArena) -> (NodeMut, WM) {
    match spec {
        WSpec::Leaf { kind, size, prefill } => {
            let size = *size;
            let pf = (*prefill).min(size);
            let pre = prefill_bytes(pf);
            match kind % WKINDS {
                0 => {
                    let mut v = Vec::new();
                    v.extend_from_slice(&pre);
                    (NodeMut::Vec(v), WM::Leaf { fixed: None, content: pre, arena_ix: usize::MAX })
                }
                1 => {
                    let mut v = Vec::with_capacity(size);
                    v.extend_from_slice(&pre);
                    (NodeMut::Vec(v), WM::Leaf { fixed: None, content: pre, arena_ix: usize::MAX })
                }
                2 => {
                    let mut b = BytesMut::with_capacity(size);
                    b.extend_from_slice(&pre);
                    (NodeMut::BytesMut(b), WM::Leaf { fixed: None, content: pre, arena_ix: usize::MAX })
                }
                3 => {
                    // shared storage with a sibling behind it: capacity is bounded, growth must reallocate
                    let mut b = BytesMut::with_capacity(size + 8);
                    b.extend_from_slice(&pre);
                    b.resize(size, 0);
                    b.extend_from_slice(b"SIBLING!");
                    let tail = b.split_off(size);
                    arena.keep.push(tail);
                    b.truncate(pf);
                    (NodeMut::BytesMut(b), WM::Leaf { fixed: None, content: pre, arena_ix: usize::MAX })
                }
                6 => {
                    let mut b = BytesMut::with_capacity(size + 4);
                    b.extend_from_slice(b"skip");
                    b.extend_from_slice(&pre);
                    b.advance(4);
                    (NodeMut::BytesMut(b), WM::Leaf { fixed: None, content: pre, arena_ix: usize::MAX })
                }
                4 => {
                    let (ix, p) = arena.fixed(size);
                    // SAFETY: the arena outlives the node; the slice covers exactly the body between the guards
                    let s: &'static mut [u8] = unsafe { std::slice::from_raw_parts_mut(p, size) };
                    let mut n = NodeMut::SliceMut(s);
                    n.put_slice(&pre);
                    (n, WM::Leaf { fixed: Some(size), content: pre, arena_ix: ix })
                }
                _ => {
                    let (ix, p) = arena.fixed(size);
                    let s: &'static mut [MaybeUninit<u8>] = unsafe { std::slice::from_raw_parts_mut(p as *mut MaybeUninit<u8>, size) };
                    let mut n = NodeMut::UninitMut(s);
                    n.put_slice(&pre);
                    (n, WM::Leaf { fixed: Some(size), content: pre, arena_ix: ix })
                }
            }
        }
        WSpec::Chain(a, b) => {
            let (na, ma) = build_w(a, arena);
            let (nb, mb) = build_w(b, arena);
            (NodeMut::Chain(BufMut::chain_mut(Box::new(na), Box::new(nb))), WM::Chain(Box::new(ma), Box::new(mb)))
        }
        WSpec::Limit(i, l) => {
            let (n, m) = build_w(i, arena);
            (NodeMut::Limit(BufMut::limit(Box::new(n), *l)), WM::Limit(Box::new(m), *l))
        }
        WSpec::MutRef(i) => {
            let (n, m) = build_w(i, arena);
            (NodeMut::MutRef(MRef::new(n)), WM::Wrap(Box::new(m)))
        }
        WSpec::Boxed(i) => {
            let (n, m) = build_w(i, arena);
            (NodeMut::Boxed(Box::new(n)), WM::Wrap(Box::new(m)))
        }
    }
}

#[derive(Clone, Debug)]
pub struct WCase {
    pub spec: WSpec,
    pub ops: Vec<(u8, u32, u32, u64)>,
}
impl WCase {
    pub fn to_json(&self) -> Value {
        json!({"engine": "bufmut", "spec": self.spec.to_json(), "ops": self.ops.iter().map(|o| json!([o.0, o.1, o.2, o.3.to_string()])).collect::<Vec<_>>()})
    }
    pub fn from_json(v: &Value) -> Option<WCase> {
        let spec = WSpec::from_json(v.get("spec")?)?;
        let ops = v
            .get("ops")?
            .as_array()?
            .iter()
            .map(|o| (o[0].as_u64().unwrap_or(0) as u8, o[1].as_u64().unwrap_or(0) as u32, o[2].as_u64().unwrap_or(0) as u32, o[3].as_str().and_then(|s| s.parse().ok()).unwrap_or(0)))
            .collect();
        Some(WCase { spec, ops })
    }
}

pub const WOP_NAMES: [&str; 16] = [
    "put_X", "put_slice", "put_bytes", "put(Buf)", "chunk_mut+advance_mut", "wrap limit(n)", "wrap chain_mut(self, leaf)", "wrap chain_mut(leaf, self)", "set_limit",
    "writer().write", "writer().write_all+flush", "wrap &mut", "wrap Box", "observe", "inner target written through get_mut/first_mut/last_mut", "both halves of a Chain initialised through first_mut/last_mut, one advance_mut across the boundary",
];

type Bad = Vec<(&'static str, &'static str, String)>;

#[derive(Default, Clone, Copy)]
pub struct WFlags {
    pub straddle: bool,
    pub grew: bool,
    pub no_fit: bool,
    pub limit_edge: bool,
}
pub struct WStats {
    pub ops: [u64; 16],
    pub putters: [u64; 38],
    pub leaf_kinds: [u64; 7],
    pub panics: u64,
    pub walks: u64,
    pub readbacks: u64,
    pub large_fills: u64,
    pub inner_direct: u64,
    pub dismantled: u64,
    pub unfittable: u64,
    pub cross_advance: u64,
    pub uninit_len_mismatch: u64,
    pub classes: [u64; 4],
}

impl Default for WStats {
    fn default() -> Self {
        WStats { ops: [0; 16], putters: [0; 38], leaf_kinds: [0; 7], panics: 0, walks: 0, readbacks: 0, large_fills: 0, inner_direct: 0, dismantled: 0, unfittable: 0, cross_advance: 0, uninit_len_mismatch: 0, classes: [0; 4] }
    }
}

fn value_bits(sel: u64, size: usize, signed: bool, float: bool) -> u128 {
    // boundary list + arbitrary bits, reduced to a value that fits `size` bytes
    let raw: u128 = match sel % 10 {
        0 => 0,
        1 => u128::MAX,
        2 => 1,
        3 => 1u128 << (8 * size.max(1) - 1),           // sign bit only
        4 => (1u128 << (8 * size.max(1) - 1)) - 1,     // max positive
        5 => 0x0102_0304_0506_0708_090a_0b0c_0d0e_0f10,
        6 => 0x80,
        7 => 0xff00,
        _ => {
            let mut s = util::SplitMix(sel);
            ((s.next() as u128) << 64) | s.next() as u128
        }
    };
    if size == 0 {
        return 0;
    }
    let mask: u128 = if size >= 16 { u128::MAX } else { (1u128 << (8 * size)) - 1 };
    let v = raw & mask;
    if float {
        return v;
    }
    if signed && size < 16 {
        let sh = 128 - 8 * size as u32;
        (((v << sh) as i128) >> sh) as u128
    } else {
        v
    }
}

fn encode(p: &PutM, bits: u128, nbytes: usize) -> Vec<u8> {
    let size = if p.size == 0 { nbytes } else { p.size };
    let le = p.endian == 1 || (p.endian == 2 && cfg!(target_endian = "little"));
    let mut out = Vec::with_capacity(size);
    for i in 0..size {
        let shift = if le { i } else { size - 1 - i };
        out.push((bits >> (8 * shift)) as u8);
    }
    out
}

pub struct WInterp<'a> {
    pub root: Option<NodeMut>,
    pub model: WM,
    pub arena: WArena,
    pub viols: Vec<(&'static str, &'static str, String, usize)>,
    pub flags: WFlags,
    pub st: &'a mut WStats,
    pub step: usize,
    pub trace: Option<Vec<String>>,
    pub ended: bool,
    pub depth: usize,
    pub dg: u64,
}

macro_rules! wtr {
    ($self:expr, $($arg:tt)*) => {
        if let Some(t) = $self.trace.as_mut() {
            t.push(format!($($arg)*));
        }
    };
}

impl<'a> WInterp<'a> {
    pub fn new(spec: &WSpec, st: &'a mut WStats, trace: bool) -> Self {
        let mut arena = WArena::default();
        let (n, m) = build_w(spec, &mut arena);
        fn kinds(s: &WSpec, st: &mut WStats) {
            match s {
                WSpec::Leaf { kind, .. } => st.leaf_kinds[(*kind % WKINDS) as usize] += 1,
                WSpec::Chain(a, b) => {
                    kinds(a, st);
                    kinds(b, st);
                }
                WSpec::Limit(i, _) | WSpec::MutRef(i) | WSpec::Boxed(i) => kinds(i, st),
            }
        }
        kinds(spec, st);
        WInterp { root: Some(n), model: m, arena, viols: vec![], flags: WFlags::default(), st, step: 0, trace: if trace { Some(vec![format!("target = {}", spec.describe())]) } else { None }, ended: false, depth: spec.depth(), dg: 0xcbf29ce484222325 }
    }
    fn v(&mut self, p: &'static str, o: &'static str, d: String) {
        if !self.viols.iter().any(|x| x.0 == p) {
            let s = self.step;
            self.viols.push((p, o, d, s));
        }
    }

    pub fn observe(&mut self, probe_chunk: bool) {
        let mut bad: Bad = Vec::new();
        {
            let Some(root) = self.root.as_mut() else { return };
            let room = self.model.room();
            let rm = root.remaining_mut();
            self.dg ^= rm as u64;
            self.dg = self.dg.wrapping_mul(0x100000001b3);
            if self.model.all_fixed() {
                if rm != room {
                    bad.push(("C11", "remaining_mut-fixed-target", format!("remaining_mut()={} but the fixed-size target has room for {}", rm, room)));
                }
            } else if rm < room.min(1 << 40) {
                bad.push(("C11", "remaining_mut-too-small", format!("remaining_mut()={} model room {}", rm, room)));
            }
            // (called on the node type itself: `root.has_remaining_mut()` on a `&mut NodeMut` resolves to the crate's `&mut T` impl,
            // which does not forward this method, and would only ever test the trait's default)
            let hrm = <NodeMut as BufMut>::has_remaining_mut(root);
            if hrm != (rm > 0) {
                bad.push(("C11", "has_remaining_mut", format!("has_remaining_mut()={} remaining_mut()={}", hrm, rm)));
            }
            if probe_chunk {
                let cl = catch_unwind(AssertUnwindSafe(|| root.chunk_mut().len()));
                match cl {
                    Ok(cl) => {
                        let rm2 = root.remaining_mut();
                        if cl > rm2 {
                            bad.push(("C11", "chunk_mut-longer-than-remaining_mut", format!("chunk_mut().len()={} remaining_mut()={}", cl, rm2)));
                        }
                        if cl == 0 && rm2 > 0 {
                            bad.push(("C11", "chunk_mut-empty-but-room-left", format!("chunk_mut() is empty, remaining_mut()={}", rm2)));
                        }
                    }
                    Err(_) => {
                        if room > 0 {
                            bad.push(("C11", "chunk_mut-panicked", format!("chunk_mut() panicked with room {}", room)));
                        }
                    }
                }
            }
            self.st.walks += 1;
            walk_w(root, &self.model, &self.arena, &mut bad, &mut String::new());
        }
        // guards of every fixed arena
        for (i, b) in self.arena.bufs.iter().enumerate() {
            let n = b.len();
            if b[..G].iter().any(|&x| x != GUARD) || b[n - G..].iter().any(|&x| x != GUARD) {
                bad.push(("C11", "guard-bytes-overwritten", format!("bytes outside fixed target #{} were modified", i)));
                bad.push(("C02", "guard-bytes-overwritten", format!("bytes outside fixed target #{} were modified", i)));
            }
        }
        for k in &self.arena.keep {
            if &k[..] != b"SIBLING!" {
                bad.push(("C11", "sibling-overwritten", "a write went into a sibling BytesMut's region".to_string()));
            }
        }
        for (p, o, d) in bad {
            self.v(p, o, d);
        }
    }

    /// perform a write of `bytes` (what the model expects to be appended) through closure `f`
    fn write_op(&mut self, what: String, bytes: &[u8], f: impl FnOnce(&mut NodeMut)) {
        let room = self.model.room();
        let first = self.model.first_room();
        let fits = bytes.len() <= room;
        wtr!(self, "{} [{} bytes, room {} first chunk room {}]", what, bytes.len(), room, first);
        let root = self.root.as_mut().unwrap();
        let r = catch_unwind(AssertUnwindSafe(|| f(root)));
        self.dg ^= (bytes.len() as u64) << 1 | r.is_ok() as u64;
        self.dg = self.dg.wrapping_mul(0x100000001b3);
        match (fits, r.is_ok()) {
            (true, true) => {
                if bytes.len() > first && first > 0 {
                    self.flags.straddle = true;
                    self.st.classes[0] += 1;
                }
                if !bytes.is_empty() && (bytes.len() == room || bytes.len() == first) {
                    self.flags.limit_edge = true;
                    self.st.classes[3] += 1;
                }
                if !self.model.all_fixed() && bytes.len() > 16 {
                    self.flags.grew = true;
                    self.st.classes[1] += 1;
                }
                self.model.write(bytes);
            }
            (true, false) => {
                self.v("C11", "unexpected-panic", format!("{} panicked although {} bytes fit into room {}", what, bytes.len(), room));
                self.ended = true;
            }
            (false, true) => {
                self.v("C11", "no-panic-when-write-does-not-fit", format!("{} returned normally: {} bytes for room {}", what, bytes.len(), room));
                self.ended = true;
            }
            (false, false) => {
                self.flags.no_fit = true;
                self.st.classes[2] += 1;
                self.st.panics += 1;
                wtr!(self, "    -> panicked (expected: does not fit)");
                // guards and siblings must be intact; already-written bytes must be unchanged; contents after the cursor are
                // unspecified after the panic, so only the written prefix is compared
                self.ended = true;
            }
        }
    }

    pub fn exec(&mut self, code: u8, a: u32, b: u32, c: u64) {
        if self.root.is_none() {
            return;
        }
        let code = code % 16;
        let code = if crate::bufeng::digest_mode() && matches!(code, 9 | 10) { 13 } else { code };
        self.st.ops[code as usize] += 1;
        let room = self.model.room();
        let first = self.model.first_room();
        let pick_n = |sel: u32| -> usize {
            match sel % 12 {
                0 => 0,
                1 => 1,
                2 => first.min(70),
                3 => first.saturating_sub(1).min(70),
                4 => (first + 1).min(70),
                5 => room.min(100),
                6 => (room.min(99)) + 1,
                7 => room.saturating_sub(1).min(100),
                8 => 17,
                9 => 65,
                _ => (sel as usize / 12) % 40,
            }
        };
        match code {
            0 => {
                let pi = (a as usize) % PUTTERS.len();
                let p = &PUTTERS[pi];
                let nb = (b % 9) as usize;
                let size = if p.size == 0 { nb } else { p.size };
                let bits = value_bits(c, size, p.signed, p.float);
                let enc = encode(p, bits, nb);
                self.st.putters[pi] += 1;
                let put = p.put;
                self.write_op(format!("put_{}({:#x}{})", p.name, bits, if p.size == 0 { format!(", {}", nb) } else { String::new() }), &enc, move |r| put(r, bits, nb));
                // read back with the matching getter (independent of where it was written)
                let g = &GETTERS[p.get_idx];
                let mut rd = Node::Slice(unsafe { std::mem::transmute::<&[u8], &'static [u8]>(&enc[..]) });
                let got = catch_unwind(AssertUnwindSafe(|| (g.get)(&mut rd, nb)));
                self.st.readbacks += 1;
                match got {
                    Ok(v) if v == bits => {}
                    Ok(v) => self.v("C11", "read-back-differs", format!("put_{}({:#x}) encodes as {:02x?}; get_{} of that returns {:#x}", p.name, bits, enc, g.name, v)),
                    Err(_) => self.v("C11", "read-back-panicked", format!("get_{} on {:02x?}", g.name, enc)),
                }
            }
            1 => {
                let n = pick_n(a);
                let data: Vec<u8> = (0..n).map(|i| 0x41 + ((i + b as usize) % 26) as u8).collect();
                let d2 = data.clone();
                self.write_op(format!("put_slice({} bytes)", n), &data, move |r| r.put_slice(&d2));
            }
            2 => {
                let mut n = pick_n(a);
                let mut val = (b as u8) | 1;
                // occasionally a large fill (zero or not) into a target with room: size- or value-dependent fast paths
                if a % 61 == 7 && room >= 300_000 && !crate::bufeng::digest_mode() {
                    n = 131072 + (a as usize / 61) % 3;
                    if b % 2 == 0 {
                        val = 0;
                    }
                    self.st.large_fills += 1;
                }
                // a fill that cannot fit whatever the target is: more than remaining_mut() says (also for growable targets, where
                // remaining_mut() is usize::MAX - len or isize::MAX - len). Skipped when a saturated sum reports usize::MAX.
                if a % 61 == 9 {
                    let root = self.root.as_mut().unwrap();
                    let rm = catch_unwind(AssertUnwindSafe(|| root.remaining_mut())).unwrap_or(usize::MAX);
                    if rm < usize::MAX {
                        let cnt = if b % 2 == 0 { rm + 1 } else { usize::MAX };
                        wtr!(self, "put_bytes({:#x}, {}) [remaining_mut() = {}]", val, cnt, rm);
                        let r = catch_unwind(AssertUnwindSafe(|| root.put_bytes(val, cnt)));
                        self.st.unfittable += 1;
                        self.dg ^= 0x51 ^ r.is_ok() as u64;
                        self.dg = self.dg.wrapping_mul(0x100000001b3);
                        if r.is_ok() {
                            self.v("C11", "no-panic-when-write-does-not-fit", format!("put_bytes({:#x}, {}) returned normally with remaining_mut() = {}", val, cnt, rm));
                        } else {
                            self.flags.no_fit = true;
                            self.st.panics += 1;
                        }
                        self.ended = true;
                        let probe = false;
                        self.observe(probe);
                        return;
                    }
                }
                let data = vec![val; n];
                self.write_op(format!("put_bytes({:#x}, {})", val, n), &data, move |r| r.put_bytes(val, n));
            }
            3 => {
                // source: a small engine-B read tree
                let n1 = pick_n(a).min(40);
                let n2 = (b % 9) as usize;
                let d1: Vec<u8> = (0..n1).map(|i| 0x61 + (i % 26) as u8).collect();
                let d2: Vec<u8> = (0..n2).map(|i| 0x30 + (i % 10) as u8).collect();
                let spec = match c % 4 {
                    0 => Spec::Leaf { kind: (c / 4 % 12) as u8, data: d1.clone(), pre: 1 },
                    1 => Spec::Chain(Box::new(Spec::Leaf { kind: 0, data: d1.clone(), pre: 0 }), Box::new(Spec::Leaf { kind: (c / 4 % 12) as u8, data: d2.clone(), pre: 2 })),
                    2 => Spec::Take(Box::new(Spec::Chain(Box::new(Spec::Leaf { kind: 7, data: d1.clone(), pre: 1 }), Box::new(Spec::Leaf { kind: 1, data: d2.clone(), pre: 0 }))), n1 + n2 / 2),
                    _ => Spec::Chain(Box::new(Spec::Leaf { kind: 6, data: vec![], pre: 0 }), Box::new(Spec::Leaf { kind: 2, data: d1.clone(), pre: 3 })),
                };
                let mut ra = RArena::default();
                let (src, sm) = build_read(&spec, &mut ra);
                let data = sm.rest();
                self.write_op(format!("put({})", spec.describe()), &data, move |r| r.put(src));
                drop(ra);
            }
            4 => {
                // the documented manual pattern: chunk_mut, initialise k bytes, advance_mut(k)
                let want = pick_n(a).min(room);
                let data: Vec<u8> = (0..want).map(|i| 0x80 + (i % 64) as u8).collect();
                let d2 = data.clone();
                let how = b % 5;
                // UninitSlice::copy_from_slice is a public safe method that "panics if self and src have different lengths":
                // a shorter source must not be read past its end, a longer one must not be cut silently
                if b % 7 == 6 && room >= 2 {
                    let root = self.root.as_mut().unwrap();
                    let src_store: [u8; 4] = [0x31, crate::oalloc::GUARD, crate::oalloc::GUARD, crate::oalloc::GUARD];
                    let short = catch_unwind(AssertUnwindSafe(|| {
                        let ch = root.chunk_mut();
                        if ch.len() >= 2 {
                            ch[..2].copy_from_slice(&src_store[..1]);
                            true
                        } else {
                            false
                        }
                    }));
                    let long = catch_unwind(AssertUnwindSafe(|| {
                        let ch = root.chunk_mut();
                        if ch.len() >= 1 {
                            ch[..1].copy_from_slice(&src_store[..2]);
                            true
                        } else {
                            false
                        }
                    }));
                    self.st.uninit_len_mismatch += 1;
                    if matches!(short, Ok(true)) {
                        self.v("C11", "UninitSlice-copy_from_slice-accepted-a-shorter-source", "chunk_mut()[..2].copy_from_slice(&[x]) returned normally".to_string());
                        self.v("C02", "out-of-bounds-read(copy_from_slice of a shorter source)", "UninitSlice::copy_from_slice copied 2 bytes out of a 1-byte source".to_string());
                    }
                    if matches!(long, Ok(true)) {
                        self.v("C11", "UninitSlice-copy_from_slice-accepted-a-longer-source", "chunk_mut()[..1].copy_from_slice(&[x, y]) returned normally".to_string());
                    }
                    if !self.viols.is_empty() {
                        self.ended = true;
                        self.observe(false);
                        return;
                    }
                }
                self.write_op(format!("chunk_mut + write {} + advance_mut", want), &data, move |r| {
                    // the documented manual pattern, repeated until everything is written
                    let mut left: &[u8] = &d2;
                    while !left.is_empty() {
                        let ch: &mut UninitSlice = r.chunk_mut();
                        assert!(ch.len() > 0, "chunk_mut() empty although room is left");
                        let k = ch.len().min(left.len());
                        // every way UninitSlice offers to initialise the bytes
                        match how {
                            0 => unsafe { std::ptr::copy_nonoverlapping(left.as_ptr(), ch.as_mut_ptr(), k) },
                            1 => ch[..k].copy_from_slice(&left[..k]),
                            2 => {
                                for (i, &x) in left[..k].iter().enumerate() {
                                    ch.write_byte(i, x);
                                }
                            }
                            3 => {
                                // two halves through the other range forms
                                let h = k / 2;
                                ch[..=h.saturating_sub(1).min(k - 1)].len();
                                ch[0..h].copy_from_slice(&left[..h]);
                                ch[h..][..k - h].copy_from_slice(&left[h..k]);
                                assert_eq!(ch[h..k].len(), k - h);
                            }
                            _ => {
                                let whole = &mut ch[..];
                                assert!(whole.len() >= k);
                                whole[..k].copy_from_slice(&left[..k]);
                            }
                        }
                        unsafe { r.advance_mut(k) };
                        left = &left[k..];
                    }
                });
            }
            5 => {
                let l = match a % 8 {
                    0 => 0,
                    1 => room.min(200) / 2,
                    2 => room.min(200),
                    3 => room.min(200) + 1,
                    4 => usize::MAX,
                    5 => first.min(200),
                    6 => first.saturating_sub(1).min(200),
                    _ => (a as usize / 8) % 50,
                };
                wtr!(self, "self = self.limit({})", l);
                let root = self.root.take().unwrap();
                self.root = Some(NodeMut::Limit(BufMut::limit(Box::new(root), l)));
                let m = std::mem::replace(&mut self.model, WM::Wrap(Box::new(WM::Leaf { fixed: Some(0), content: vec![], arena_ix: usize::MAX })));
                self.model = WM::Limit(Box::new(m), l);
                self.depth += 1;
            }
            6 | 7 => {
                let spec = WSpec::Leaf { kind: (a % WKINDS as u32) as u8, size: (b % 24) as usize, prefill: (c % 5) as usize };
                wtr!(self, "self = chain_mut({}) with {}", if code == 6 { "self, leaf" } else { "leaf, self" }, spec.describe());
                let (leaf, lm) = build_w(&spec, &mut self.arena);
                let root = self.root.take().unwrap();
                let m = std::mem::replace(&mut self.model, WM::Wrap(Box::new(WM::Leaf { fixed: Some(0), content: vec![], arena_ix: usize::MAX })));
                if code == 6 {
                    self.root = Some(NodeMut::Chain(BufMut::chain_mut(Box::new(root), Box::new(leaf))));
                    self.model = WM::Chain(Box::new(m), Box::new(lm));
                } else {
                    self.root = Some(NodeMut::Chain(BufMut::chain_mut(Box::new(leaf), Box::new(root))));
                    self.model = WM::Chain(Box::new(lm), Box::new(m));
                }
                self.depth += 1;
            }
            8 => {
                fn first_limit(n: &mut NodeMut) -> Option<&mut bytes::buf::Limit<Box<NodeMut>>> {
                    match n {
                        NodeMut::Limit(l) => Some(l),
                        NodeMut::Boxed(b) => first_limit(&mut **b),
                        NodeMut::MutRef(m) => first_limit(m.inner_mut()),
                        _ => None,
                    }
                }
                fn first_limit_m(m: &mut WM) -> Option<&mut usize> {
                    match m {
                        WM::Limit(_, l) => Some(l),
                        WM::Wrap(i) => first_limit_m(i),
                        _ => None,
                    }
                }
                let l = match a % 5 {
                    0 => 0,
                    1 => first.min(100),
                    2 => room.min(100) + 1,
                    3 => usize::MAX,
                    _ => (a as usize / 5) % 40,
                };
                if let Some(lim) = first_limit(self.root.as_mut().unwrap()) {
                    wtr!(self, "outer Limit .set_limit({})", l);
                    lim.set_limit(l);
                    if let Some(ml) = first_limit_m(&mut self.model) {
                        *ml = l;
                    }
                }
            }
            #[cfg(feature = "bstd")]
            9 | 10 => {
                use std::io::Write;
                let n = pick_n(a);
                let data: Vec<u8> = (0..n).map(|i| 0x21 + ((i + b as usize) % 90) as u8).collect();
                let root = self.root.take().unwrap();
                let mut w = BufMut::writer(root);
                if code == 9 {
                    wtr!(self, "writer().write({} bytes) [room {}]", n, room);
                    let r = catch_unwind(AssertUnwindSafe(|| w.write(&data)));
                    match r {
                        Ok(Ok(k)) => {
                            let want = n.min(room);
                            if k != want {
                                self.v("C12", "writer-write-count", format!("write returned {} for {} bytes with room {}", k, n, room));
                            } else {
                                self.model.write(&data[..k]);
                                if k < n || k == room {
                                    self.flags.limit_edge = true;
                                    self.st.classes[3] += 1;
                                }
                            }
                        }
                        Ok(Err(e)) => self.v("C12", "writer-write-failed", format!("{}", e)),
                        Err(_) => self.v("C12", "writer-write-panicked", format!("{} bytes, room {}", n, room)),
                    }
                } else {
                    let n = n.min(room);
                    match b % 3 {
                        1 => {
                            // Write::write_fmt (the data is printable ASCII)
                            wtr!(self, "write!(writer(), \"{{}}\", <{} bytes>); flush()", n);
                            let st = std::str::from_utf8(&data[..n]).unwrap_or("");
                            let r = catch_unwind(AssertUnwindSafe(|| write!(w, "{}", st).and_then(|_| w.flush())));
                            match r {
                                Ok(Ok(())) => self.model.write(&data[..n]),
                                _ => self.v("C12", "writer-write_all-failed", format!("write_fmt: {} bytes, room {}", n, room)),
                            }
                        }
                        2 => {
                            // Write::write_vectored (std's default writes the first non-empty buffer; an override may take more): any
                            // count in 1..=n is right, the rest is written with write_all
                            let cut = n / 3;
                            wtr!(self, "writer().write_vectored([{}, {}]); write_all(rest)", cut, n - cut);
                            let r = catch_unwind(AssertUnwindSafe(|| {
                                let k = w.write_vectored(&[std::io::IoSlice::new(&data[..cut]), std::io::IoSlice::new(&data[cut..n])])?;
                                if k > n || (k == 0 && n > 0) {
                                    return Ok(Err(k));
                                }
                                w.write_all(&data[k..n]).map(|_| Ok(k))
                            }));
                            match r {
                                Ok(Ok(Ok(_))) => self.model.write(&data[..n]),
                                Ok(Ok(Err(k))) => self.v("C12", "writer-write-count", format!("write_vectored returned {} for {} bytes with room {}", k, n, room)),
                                _ => self.v("C12", "writer-write_all-failed", format!("write_vectored + write_all: {} bytes, room {}", n, room)),
                            }
                        }
                        _ => {
                            wtr!(self, "writer().write_all({} bytes); flush()", n);
                            let r = catch_unwind(AssertUnwindSafe(|| w.write_all(&data[..n]).and_then(|_| w.flush())));
                            match r {
                                Ok(Ok(())) => self.model.write(&data[..n]),
                                _ => self.v("C12", "writer-write_all-failed", format!("{} bytes, room {}", n, room)),
                            }
                        }
                    }
                }
                let _ = w.get_ref();
                self.root = Some(w.into_inner());
            }
            11 => {
                wtr!(self, "self = &mut self");
                let root = self.root.take().unwrap();
                self.root = Some(NodeMut::MutRef(MRef::new(root)));
                let m = std::mem::replace(&mut self.model, WM::Wrap(Box::new(WM::Leaf { fixed: Some(0), content: vec![], arena_ix: usize::MAX })));
                self.model = WM::Wrap(Box::new(m));
                self.depth += 1;
            }
            12 => {
                wtr!(self, "self = Box::new(self)");
                let root = self.root.take().unwrap();
                self.root = Some(NodeMut::Boxed(Box::new(root)));
                let m = std::mem::replace(&mut self.model, WM::Wrap(Box::new(WM::Leaf { fixed: Some(0), content: vec![], arena_ix: usize::MAX })));
                self.model = WM::Wrap(Box::new(m));
                self.depth += 1;
            }
            15 => {
                // The unsafe cursor API used the way its contract allows: initialise what is left of the first half and the
                // first k bytes of the second half's chunk (through first_mut() / last_mut(), without advancing them), then
                // ONE advance_mut on the Chain that spans the a/b boundary. a must be advanced by what it had left, b by the rest.
                fn go(n: &mut NodeMut, m: &mut WM, b: u32, c: u64) -> Option<(String, bool)> {
                    match (n, m) {
                        (NodeMut::Boxed(bx), WM::Wrap(mi)) => go(&mut **bx, mi, b, c),
                        (NodeMut::MutRef(r), WM::Wrap(mi)) => go(r.inner_mut(), mi, b, c),
                        (NodeMut::Chain(ch), WM::Chain(ma, mb)) => {
                            // the first half must be a fixed-size leaf with 1..=64 bytes left (one chunk), the second must have room
                            let a_rem = match &**ma {
                                WM::Leaf { fixed: Some(_), .. } => ma.room(),
                                _ => return None,
                            };
                            if a_rem == 0 || a_rem > 64 || mb.room() == 0 {
                                return None;
                            }
                            let d1: Vec<u8> = (0..a_rem).map(|i| 0x61 + ((i as u64 + c) % 26) as u8).collect();
                            let r = catch_unwind(AssertUnwindSafe(|| {
                                let ca = ch.first_mut().chunk_mut();
                                assert!(ca.len() >= a_rem, "harness: first half hands out a shorter chunk than its room");
                                ca[..a_rem].copy_from_slice(&d1);
                                let cb = ch.last_mut().chunk_mut();
                                let kb = cb.len().min(1 + (b as usize % 8));
                                let d2: Vec<u8> = (0..kb).map(|i| 0x41 + ((i as u64 + c) % 26) as u8).collect();
                                cb[..kb].copy_from_slice(&d2);
                                d2
                            }));
                            let Ok(d2) = r else { return Some(("initialising the halves".to_string(), true)) };
                            let total = a_rem + d2.len();
                            let r = catch_unwind(AssertUnwindSafe(|| unsafe { ch.advance_mut(total) }));
                            ma.write(&d1);
                            mb.write(&d2);
                            Some((format!("Chain::advance_mut({}) with {} left in the first half", total, a_rem), r.is_err()))
                        }
                        _ => None,
                    }
                }
                let root = self.root.as_mut().unwrap();
                if let Some((what, panicked)) = go(root, &mut self.model, b, c) {
                    wtr!(self, "{}", what);
                    self.st.cross_advance += 1;
                    if panicked {
                        self.v("C12", "unexpected-panic", format!("{} panicked although both halves have the room", what));
                        self.ended = true;
                    }
                }
            }
            14 => {
                // reach into the outermost adapter and write one byte into an inner target directly; the adapter's own limit
                // does not change, the inner target's room does (C12)
                fn go(n: &mut NodeMut, m: &mut WM, v: u8, b: u32) -> Option<(String, bool)> {
                    match (n, m) {
                        (NodeMut::Boxed(bx), WM::Wrap(mi)) => go(&mut **bx, mi, v, b),
                        (NodeMut::MutRef(r), WM::Wrap(mi)) => go(r.inner_mut(), mi, v, b),
                        (NodeMut::Limit(l), WM::Limit(mi, _)) => {
                            if mi.room() == 0 {
                                return None;
                            }
                            let r = catch_unwind(AssertUnwindSafe(|| l.get_mut().put_u8(v)));
                            mi.write(&[v]);
                            Some(("Limit::get_mut().put_u8".to_string(), r.is_err()))
                        }
                        (NodeMut::Chain(c), WM::Chain(ma, mb)) => {
                            let (mi, first) = if b % 2 == 0 { (ma, true) } else { (mb, false) };
                            if mi.room() == 0 {
                                return None;
                            }
                            let r = catch_unwind(AssertUnwindSafe(|| if first { c.first_mut().put_u8(v) } else { c.last_mut().put_u8(v) }));
                            mi.write(&[v]);
                            Some((format!("Chain::{}_mut().put_u8", if first { "first" } else { "last" }), r.is_err()))
                        }
                        _ => None,
                    }
                }
                let v = (c as u8) | 1;
                let root = self.root.as_mut().unwrap();
                if let Some((what, panicked)) = go(root, &mut self.model, v, b) {
                    wtr!(self, "{}({:#x})", what, v);
                    self.st.inner_direct += 1;
                    if panicked {
                        self.v("C11", "unexpected-panic", format!("{} panicked although the inner target has room", what));
                        self.ended = true;
                    }
                }
            }
            _ => {}
        }
        let probe = !self.ended && (a % 3 == 0);
        self.observe(probe);
    }
}

fn walk_w(n: &NodeMut, m: &WM, arena: &WArena, bad: &mut Bad, path: &mut String) {
    // every node, not only the root: the two `&self` queries of the concrete type must agree with each other (an outer adapter only
    // reaches them through `Box<T>`, which forwards remaining_mut() but not has_remaining_mut())
    if let Ok((hrm, rm)) = catch_unwind(AssertUnwindSafe(|| (<NodeMut as BufMut>::has_remaining_mut(n), <NodeMut as BufMut>::remaining_mut(n)))) {
        if hrm != (rm > 0) {
            bad.push(("C11", "has_remaining_mut", format!("at {}: has_remaining_mut()={} remaining_mut()={}", path, hrm, rm)));
        }
    }
    match (n, m) {
        (NodeMut::Limit(l), WM::Limit(mi, ml)) => {
            if l.limit() != *ml {
                bad.push(("C12", "limit-value", format!("at {}: limit()={} model {}", path, l.limit(), ml)));
            }
            let k = path.len();
            path.push_str(".limit");
            walk_w(l.get_ref(), mi, arena, bad, path);
            path.truncate(k);
        }
        (NodeMut::Chain(c), WM::Chain(ma, mb)) => {
            let k = path.len();
            path.push_str(".a");
            walk_w(c.first_ref(), ma, arena, bad, path);
            path.truncate(k);
            path.push_str(".b");
            walk_w(c.last_ref(), mb, arena, bad, path);
            path.truncate(k);
        }
        (NodeMut::MutRef(r), WM::Wrap(mi)) => walk_w(r.inner(), mi, arena, bad, path),
        (NodeMut::Boxed(b), WM::Wrap(mi)) => walk_w(b, mi, arena, bad, path),
        (NodeMut::Vec(v), WM::Leaf { content, .. }) => {
            if v[..] != content[..] {
                bad.push(("C11", "target-contents", format!("at {}: Vec holds {} bytes {:02x?}.., expected {} bytes {:02x?}..", path, v.len(), &v[..v.len().min(10)], content.len(), &content[..content.len().min(10)])));
            }
        }
        (NodeMut::BytesMut(v), WM::Leaf { content, .. }) => {
            if v[..] != content[..] {
                bad.push(("C11", "target-contents", format!("at {}: BytesMut holds {} bytes, expected {} bytes (first difference at {:?})", path, v.len(), content.len(), v.iter().zip(content.iter()).position(|(a, b)| a != b))));
            }
        }
        (NodeMut::SliceMut(s), WM::Leaf { fixed: Some(size), content, arena_ix }) => check_fixed(s.len(), *size, content, &arena.bufs[*arena_ix], bad, path),
        (NodeMut::UninitMut(s), WM::Leaf { fixed: Some(size), content, arena_ix }) => check_fixed(s.len(), *size, content, &arena.bufs[*arena_ix], bad, path),
        _ => bad.push(("C12", "tree-shape", format!("at {}: node and model shapes differ", path))),
    }
}

fn dismantle_w(n: NodeMut, m: &WM, arena: &WArena, bad: &mut Bad, path: &mut String) {
    match (n, m) {
        (NodeMut::Limit(l), WM::Limit(mi, _)) => {
            let k = path.len();
            path.push_str(".limit.into_inner()");
            dismantle_w(*l.into_inner(), mi, arena, bad, path);
            path.truncate(k);
        }
        (NodeMut::Chain(c), WM::Chain(ma, mb)) => {
            let (a, b) = c.into_inner();
            let k = path.len();
            path.push_str(".into_inner().0");
            dismantle_w(*a, ma, arena, bad, path);
            path.truncate(k);
            path.push_str(".into_inner().1");
            dismantle_w(*b, mb, arena, bad, path);
            path.truncate(k);
        }
        (NodeMut::MutRef(r), WM::Wrap(mi)) => dismantle_w(r.into_inner(), mi, arena, bad, path),
        (NodeMut::Boxed(b), WM::Wrap(mi)) => dismantle_w(*b, mi, arena, bad, path),
        (leaf, m) => walk_w(&leaf, m, arena, bad, path),
    }
}

fn check_fixed(left: usize, size: usize, content: &[u8], buf: &[u8], bad: &mut Bad, path: &str) {
    if left != size - content.len().min(size) {
        bad.push(("C11", "fixed-target-cursor", format!("at {}: {} bytes of room left, expected {}", path, left, size - content.len().min(size))));
    }
    let body = &buf[G..G + size];
    let w = content.len().min(size);
    if body[..w] != content[..w] {
        bad.push(("C11", "target-contents", format!("at {}: written region holds {:02x?}.., expected {:02x?}..", path, &body[..w.min(10)], &content[..w.min(10)])));
    }
    if body[w..].iter().any(|&x| x != BODY) {
        bad.push(("C11", "bytes-beyond-cursor-modified", format!("at {}: bytes after the write cursor were modified", path)));
    }
}

pub fn run_wcase(c: &WCase, st: &mut WStats, trace: bool) -> (Vec<(&'static str, &'static str, String, usize)>, WFlags, Option<Vec<String>>, usize) {
    let (a, b, c2, d, _) = run_wcase_dg(c, st, trace);
    (a, b, c2, d)
}
pub fn run_wcase_dg(c: &WCase, st: &mut WStats, trace: bool) -> (Vec<(&'static str, &'static str, String, usize)>, WFlags, Option<Vec<String>>, usize, u64) {
    let mut it = WInterp::new(&c.spec, st, trace);
    it.observe(true);
    for (i, op) in c.ops.iter().enumerate() {
        if it.ended || !it.viols.is_empty() {
            break;
        }
        it.step = i;
        it.exec(op.0, op.1, op.2, op.3);
    }
    let root = it.root.take();
    if it.viols.is_empty() && !it.ended && root.is_some() {
        // take the tree apart with into_inner() and compare every leaf with the model once more (C12: "into_inner() shows the
        // inner buffers advanced by exactly the number of bytes that went through the adapter")
        let mut bad: Bad = Vec::new();
        let mut path = String::new();
        let model = std::mem::replace(&mut it.model, WM::Leaf { fixed: Some(0), content: vec![], arena_ix: usize::MAX });
        let r = catch_unwind(AssertUnwindSafe(|| dismantle_w(root.unwrap(), &model, &it.arena, &mut bad, &mut path)));
        it.st.dismantled += 1;
        if r.is_err() {
            it.v("C12", "into_inner-panicked", "taking the adapter tree apart panicked".to_string());
        }
        for (p, o, d) in bad {
            it.v(p, o, d);
        }
    } else {
        let _ = catch_unwind(AssertUnwindSafe(move || drop(root)));
    }
    let dg = it.dg ^ (it.viols.len() as u64).wrapping_mul(0x9E3779B97F4A7C15);
    (std::mem::take(&mut it.viols), it.flags, it.trace.take(), it.depth, dg)
}

// ---------------------------------------------------------------------------------------------

fn wleaf() -> BoxedStrategy<WSpec> {
    (0u8..WKINDS, prop_oneof![4 => 0usize..=12, 3 => 13usize..=40, 1 => Just(64usize)], 0usize..6).prop_map(|(kind, size, prefill)| WSpec::Leaf { kind, size, prefill }).boxed()
}
pub fn wspec_strategy() -> BoxedStrategy<WSpec> {
    wleaf()
        .prop_recursive(4, 16, 2, |inner| {
            prop_oneof![
                4 => (inner.clone(), inner.clone()).prop_map(|(a, b)| WSpec::Chain(Box::new(a), Box::new(b))),
                3 => (inner.clone(), prop_oneof![Just(0usize), 1usize..40, Just(usize::MAX), 1usize..8]).prop_map(|(i, l)| WSpec::Limit(Box::new(i), l)),
                1 => inner.clone().prop_map(|i| WSpec::MutRef(Box::new(i))),
                1 => inner.clone().prop_map(|i| WSpec::Boxed(Box::new(i))),
            ]
        })
        .boxed()
}
fn wop(prop: &str) -> BoxedStrategy<(u8, u32, u32, u64)> {
    let w: Vec<(u32, u8)> = if prop == "C12" {
        vec![(3, 0), (3, 1), (1, 2), (2, 3), (2, 4), (4, 5), (2, 6), (2, 7), (4, 8), (5, 9), (3, 10), (1, 11), (1, 12), (3, 14), (3, 15)]
    } else {
        vec![(10, 0), (4, 1), (3, 2), (3, 3), (3, 4), (2, 5), (2, 6), (1, 7), (1, 8), (1, 9), (1, 10), (1, 11), (1, 12), (1, 14), (1, 15)]
    };
    let ks: Vec<(u32, BoxedStrategy<u8>)> = w.into_iter().map(|(w, c)| (w, Just(c).boxed())).collect();
    (proptest::strategy::Union::new_weighted(ks), 0u32..4096, 0u32..4096, any::<u64>()).boxed()
}
pub fn wcase_strategy(prop: &str) -> BoxedStrategy<WCase> {
    (wspec_strategy(), proptest::collection::vec(wop(prop), 0..=10)).prop_map(|(spec, ops)| WCase { spec, ops }).boxed()
}

struct WCol {
    prop: String,
    evals: u64,
    nontriv: HashSet<u64>,
    st: WStats,
    samples: Vec<Value>,
    viols: Vec<Value>,
    failed: bool,
    foreign: u64,
}
impl WCol {
    fn eval(&mut self, c: &WCase, count: bool) -> Option<(String, String, String)> {
        let text = c.to_json().to_string();
        util::set_current_case(&text);
        let mut scratch = WStats::default();
        let (viols, flags, _, depth) = run_wcase(c, if count { &mut self.st } else { &mut scratch }, false);
        if count {
            self.evals += 1;
            let nt = if self.prop == "C12" { depth >= 2 && flags.limit_edge } else { flags.straddle || flags.grew || flags.no_fit };
            if viols.is_empty() && nt && self.nontriv.insert(fnv64(text.as_bytes())) && self.samples.len() < 4 && self.nontriv.len() % 41 == 1 {
                let mut s2 = WStats::default();
                let t = run_wcase(c, &mut s2, true).2.unwrap_or_default();
                self.samples.push(json!({"case": c.to_json(), "trace": t}));
            }
        }
        if let Some(v) = viols.iter().find(|v| v.0 == self.prop) {
            return Some((v.0.to_string(), v.1.to_string(), v.2.clone()));
        }
        if !viols.is_empty() && count {
            self.foreign += 1;
        }
        None
    }
    fn record(&mut self, c: &WCase, v: (String, String, String), how: &str) {
        let mut s2 = WStats::default();
        let (viols, _, t, _) = run_wcase(c, &mut s2, true);
        let mut t = t.unwrap_or_default();
        for x in &viols {
            t.push(format!("!! {} [{}] at step {}: {}", x.0, x.1, x.3, x.2));
        }
        let opname = viols.iter().find(|x| x.0 == v.0).and_then(|x| c.ops.get(x.3)).map(|o| WOP_NAMES[(o.0 % 16) as usize]).unwrap_or("");
        self.viols.push(json!({"property": v.0, "oracle": v.1, "detail": v.2, "op": opname, "found_by": how, "profile": util::profile_name(), "replay": c.to_json(), "trace": t}));
    }
}

/// enumerated part: every put method x nbytes x fixed target of size (encoding size + d) for d in -1..=1, split over a
/// two-leaf chain at every cut position
fn c11_enumerate(col: &mut WCol, worker: u64, workers: u64) -> (u64, bool) {
    let mut idx = 0u64;
    let mut done = 0u64;
    for (pi, p) in PUTTERS.iter().enumerate() {
        let widths: Vec<usize> = if p.size == 0 { (0..=8).collect() } else { vec![p.size] };
        for k in widths {
            for cut in 0..=k {
                for d in [-1i64, 0, 1] {
                    for vs in 0..6u64 {
                        idx += 1;
                        if idx % workers != worker {
                            continue;
                        }
                        let total = (k as i64 + d).max(0) as usize;
                        let a = cut.min(total);
                        let kinds = [(4u8, 5u8), (5, 4), (4, 4), (5, 5)][(idx % 4) as usize];
                        let mut spec = WSpec::Chain(Box::new(WSpec::Leaf { kind: kinds.0, size: a, prefill: 0 }), Box::new(WSpec::Leaf { kind: kinds.1, size: total - a, prefill: 0 }));
                        spec = match (idx / 4) % 4 {
                            0 => spec,
                            1 => WSpec::Limit(Box::new(spec), k),
                            2 => WSpec::MutRef(Box::new(spec)),
                            _ => WSpec::Boxed(Box::new(spec)),
                        };
                        let c = WCase { spec, ops: vec![(0, pi as u32, k as u32, vs)] };
                        if let Some(v) = col.eval(&c, true) {
                            col.record(&c, v, "enumerated putter table");
                            return (done, false);
                        }
                        done += 1;
                    }
                }
            }
        }
    }
    (done, true)
}

pub fn main_bufmut(args: &Args) -> i32 {
    util::install_crash_reporter();
    util::silence_panics();
    let prop = args.str("prop", "C11");
    let seed = args.u64("seed", 1);
    let worker = args.u64("worker", 0);
    let workers = args.u64("workers", 1).max(1);
    let cases = args.u64("cases", 1000);
    let mut col = WCol { prop: prop.clone(), evals: 0, nontriv: HashSet::new(), st: WStats::default(), samples: vec![], viols: vec![], failed: false, foreign: 0 };
    if let Some(path) = args.kv.get("replay") {
        let v: Value = serde_json::from_str(&std::fs::read_to_string(path).unwrap_or_default()).unwrap_or(Value::Null);
        let Some(c) = WCase::from_json(&v) else { return 2 };
        let r = col.eval(&c, true);
        let mut s2 = WStats::default();
        let t = run_wcase(&c, &mut s2, true).2.unwrap_or_default();
        if let Some(v) = r {
            col.record(&c, v, "replay");
        }
        println!("{}", json!({"evaluations": col.evals, "violations": col.viols, "trace": t}));
        return if col.viols.is_empty() { 0 } else { 1 };
    }
    let mut exhaustive = Vec::new();
    if prop == "C11" {
        let (done, complete) = c11_enumerate(&mut col, worker, workers);
        exhaustive.push(json!({"space": "38 put_X methods x nbytes 0..=8 x two-leaf fixed target cut at every position x total size {exact-1, exact, exact+1} x 6 value patterns; leaf kinds and wrappers rotated",
            "histories_this_worker": done, "histories_total": 0, "complete": complete}));
        col.failed = !complete;
    }
    if cases > 0 && !col.failed {
        let strat = wcase_strategy(&prop);
        let mut s = [0u8; 32];
        s[..8].copy_from_slice(&seed.to_le_bytes());
        s[8..16].copy_from_slice(&worker.to_le_bytes());
        s[16..24].copy_from_slice(&fnv64(prop.as_bytes()).to_le_bytes());
        s[24] = 0x77;
        let mut runner = TestRunner::new_with_rng(
            Config { cases: cases as u32, failure_persistence: None, max_shrink_iters: 20000, rng_seed: RngSeed::Fixed(seed), ..Config::default() },
            TestRng::from_seed(RngAlgorithm::ChaCha, &s),
        );
        let cell = std::cell::RefCell::new(&mut col);
        let res = runner.run(&strat, |c| {
            let mut g = cell.borrow_mut();
            let counting = !g.failed;
            match g.eval(&c, counting) {
                Some(v) => {
                    g.failed = true;
                    Err(TestCaseError::fail(format!("{} {}", v.0, v.1)))
                }
                None => Ok(()),
            }
        });
        drop(cell);
        if let Err(TestError::Fail(_, c)) = res {
            if let Some(v) = col.eval(&c, false) {
                col.record(&c, v, "random target tree + write sequence, shrunk by proptest");
            }
        }
    }
    if let Some(p) = args.kv.get("hashes-out") {
        util::write_hashes(p, &col.nontriv);
    }
    let st = &col.st;
    let mut ops = serde_json::Map::new();
    for (i, n) in WOP_NAMES.iter().enumerate() {
        ops.insert(n.to_string(), json!(st.ops[i]));
    }
    let mut kinds = serde_json::Map::new();
    for (i, n) in WKIND_NAMES.iter().enumerate() {
        kinds.insert(n.to_string(), json!(st.leaf_kinds[i]));
    }
    let mut puts = serde_json::Map::new();
    for (i, p) in PUTTERS.iter().enumerate() {
        puts.insert(format!("put_{}", p.name), json!(st.putters[i]));
    }
    let out = json!({
        "engine": "bufmut", "property": prop, "profile": util::profile_name(), "seed": seed, "worker": worker,
        "evaluations": col.evals, "nontrivial_distinct_this_worker": col.nontriv.len(), "exhaustive": exhaustive,
        "histogram": {"write_ops": ops, "target_leaf_kinds": kinds, "typed_writes": puts, "expected_panics(write does not fit)": st.panics, "structural_walks": st.walks, "read_backs": st.readbacks, "large_fills(>=128KiB)": st.large_fills, "direct_inner_writes": st.inner_direct, "trees_dismantled_with_into_inner": st.dismantled, "fills_larger_than_remaining_mut": st.unfittable, "advance_mut_across_a_chain_boundary": st.cross_advance, "UninitSlice_copy_from_slice_length_mismatch_probes": st.uninit_len_mismatch,
            "required_classes": {"write straddled a chunk end": st.classes[0], "growable target grew": st.classes[1], "write did not fit": st.classes[2], "write ended exactly at a chunk end / limit / capacity": st.classes[3]},
            "cases_ended_by_another_property's_violation": col.foreign},
        "samples": col.samples, "violations": col.viols,
    });
    println!("{}", out);
    if col.viols.is_empty() {
        0
    } else {
        1
    }
}
