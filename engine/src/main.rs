fn main(){}
