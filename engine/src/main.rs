//! vf: the verification engines for tokio-rs/bytes (see /verif/DESIGN.md).
#![allow(clippy::all)]
#![allow(dead_code)]

mod bufeng;
mod bufmut;
mod bufnode;
mod bufrun;
mod digest;
mod fault;
mod hist;
mod histrun;
mod oalloc;
mod recycle;
mod tbl;
mod tbl15;
mod util;

#[global_allocator]
static GLOBAL: oalloc::Oracle = oalloc::Oracle;

fn main() {
    let args = util::Args::parse(std::env::args().skip(1));
    let code = match args.pos.first().map(|s| s.as_str()) {
        Some("hist") => histrun::main_hist(&args),
        Some("tbl") => tbl::main_tbl(&args),
        Some("digest") => digest::main_digest(&args),
        Some("fault") => fault::main_fault(&args),
        Some("recycle") => recycle::main_recycle(&args),
        Some("buf") => bufrun::main_buf(&args),
        Some("bufmut") => bufmut::main_bufmut(&args),
        _ => {
            eprintln!("usage: vf <hist|buf|tbl|fault|recycle|digest> [--key value]...");
            2
        }
    };
    std::process::exit(code);
}
