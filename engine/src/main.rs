//! vf binary: oracle allocator + sub-command dispatch.
use vf::*;

#[global_allocator]
static GLOBAL: oalloc::Oracle = oalloc::Oracle;

fn main() {
    oalloc::set_installed(true);
    let args = util::Args::parse(std::env::args().skip(1));
    let code = match args.pos.first().map(|s| s.as_str()) {
        Some("hist") => histrun::main_hist(&args),
        Some("tbl") => tbl::main_tbl(&args),
        Some("fault") => fault::main_fault(&args),
        Some("digest") => digest::main_digest(&args),
        Some("recycle") => recycle::main_recycle(&args),
        Some("buf") => bufrun::main_buf(&args),
        Some("bufmut") => bufmut::main_bufmut(&args),
        _ => {
            eprintln!("usage: vf <hist|buf|bufmut|tbl|fault|recycle|digest> [--key value]...");
            2
        }
    };
    std::process::exit(code);
}
