//! Small shared helpers: crash reporter, hashing, CLI parsing, deterministic PRNG for the
//! enumerators' content streams (never used for verdict-relevant random choices: those come from
//! proptest / the enumerator / the fuzzer input).

use std::cell::UnsafeCell;
use std::collections::HashMap;
use std::sync::atomic::{AtomicUsize, Ordering::*};

// ---------------------------------------------------------------------------------------------
// current-case buffer + fatal-signal reporter.
// Before a case is executed its replay text is stored here; if the process dies with a fatal
// signal (SIGSEGV, SIGBUS, SIGABRT from an unsafe-precondition check, SIGILL) the handler writes
// the text to fd 2 between marker lines, so the driver gets the crashing case without a re-run.

const CUR_CAP: usize = 1 << 16;
struct Cur(UnsafeCell<[u8; CUR_CAP]>);
unsafe impl Sync for Cur {}
static CUR: Cur = Cur(UnsafeCell::new([0; CUR_CAP]));
static CUR_LEN: AtomicUsize = AtomicUsize::new(0);

pub fn set_current_case(text: &str) {
    let b = text.as_bytes();
    let n = b.len().min(CUR_CAP);
    unsafe {
        std::ptr::copy_nonoverlapping(b.as_ptr(), CUR.0.get() as *mut u8, n);
    }
    CUR_LEN.store(n, Release);
    // per-case watchdog: a single case that runs longer than this is reported (with the case) and the process exits
    // with status 124; the driver treats that as "hang" (exit 2, never a violation) instead of waiting for its own watchdog
    // The limit is CPU time of this process (ITIMER_PROF), not wall-clock time: a loaded machine must not turn a slow case
    // into a "hang"; a generous wall-clock alarm (20x) stays as a backstop for a case that blocks without using CPU.
    let secs = CASE_ALARM_SECS.load(Relaxed) as i64;
    unsafe {
        let tv = ITimerVal { it_interval: TimeVal { tv_sec: 0, tv_usec: 0 }, it_value: TimeVal { tv_sec: secs, tv_usec: 0 } };
        setitimer(2 /* ITIMER_PROF */, &tv, std::ptr::null_mut());
        alarm((secs * 20).min(u32::MAX as i64) as u32);
    }
}
#[repr(C)]
struct TimeVal {
    tv_sec: i64,
    tv_usec: i64,
}
#[repr(C)]
struct ITimerVal {
    it_interval: TimeVal,
    it_value: TimeVal,
}
pub static CASE_ALARM_SECS: AtomicUsize = AtomicUsize::new(60);

extern "C" {
    fn signal(signum: i32, handler: usize) -> usize;
    fn write(fd: i32, buf: *const u8, n: usize) -> isize;
    fn _exit(code: i32) -> !;
    fn alarm(seconds: u32) -> u32;
    fn setitimer(which: i32, new_value: *const ITimerVal, old_value: *mut ITimerVal) -> i32;
}

extern "C" fn on_fatal(sig: i32) {
    unsafe {
        let head = b"\n@@CRASH-CASE-BEGIN@@\n";
        write(2, head.as_ptr(), head.len());
        let n = CUR_LEN.load(Acquire);
        write(2, CUR.0.get() as *const u8, n);
        let tail = b"\n@@CRASH-CASE-END@@\n";
        write(2, tail.as_ptr(), tail.len());
        if sig == 14 || sig == 27 {
            let h = b"@@HANG@@ a single case exceeded the per-case time limit\n";
            write(2, h.as_ptr(), h.len());
            _exit(124);
        }
        _exit(128 + sig);
    }
}

pub fn install_crash_reporter() {
    unsafe {
        for s in [11, 7, 6, 4, 8, 14, 27] {
            signal(s, on_fatal as *const () as usize);
        }
    }
}

pub fn silence_panics() {
    // panics raised by the crate under test (or scripted ones) are expected and silent; a panic in the
    // harness's own code is a harness bug and is reported on stderr
    std::panic::set_hook(Box::new(|info| {
        if let Some(l) = info.location() {
            let f = l.file();
            if f.starts_with("src/") && !f.contains("buf/") && !f.starts_with("src/bytes") && !f.starts_with("src/lib.rs") {
                let msg = info.payload().downcast_ref::<&str>().map(|s| s.to_string()).or_else(|| info.payload().downcast_ref::<String>().cloned()).unwrap_or_default();
                if !msg.contains("(scripted)") && !msg.contains("chunk_mut() empty") && !msg.contains("past the end of a UserBuf") {
                    eprintln!("harness panic at {}:{}: {}", f, l.line(), msg);
                }
            }
        }
    }));
}

// ---------------------------------------------------------------------------------------------

#[inline]
pub fn fnv64(data: &[u8]) -> u64 {
    let mut h: u64 = 0xcbf29ce484222325;
    for &b in data {
        h ^= b as u64;
        h = h.wrapping_mul(0x100000001b3);
    }
    // final avalanche so that short inputs spread over all bits
    h ^= h >> 32;
    h = h.wrapping_mul(0x9E3779B97F4A7C15);
    h ^ (h >> 29)
}

#[derive(Clone)]
pub struct SplitMix(pub u64);
impl SplitMix {
    #[inline]
    pub fn next(&mut self) -> u64 {
        self.0 = self.0.wrapping_add(0x9E3779B97F4A7C15);
        let mut z = self.0;
        z = (z ^ (z >> 30)).wrapping_mul(0xBF58476D1CE4E5B9);
        z = (z ^ (z >> 27)).wrapping_mul(0x94D049BB133111EB);
        z ^ (z >> 31)
    }
}

/// Position-dependent content bytes; never produces runs of the allocator's guard / poison
/// values, so that shifted, stale or poisoned data is distinguishable from real data.
pub fn content(seed: u32, n: usize) -> Vec<u8> {
    let mut v = Vec::with_capacity(n);
    fill_content(seed, 0, n, &mut v);
    v
}
pub fn fill_content(seed: u32, start: usize, n: usize, out: &mut Vec<u8>) {
    for i in start..start + n {
        out.push(content_byte(seed, i));
    }
}
#[inline]
pub fn content_byte(seed: u32, i: usize) -> u8 {
    let x = (seed as usize).wrapping_mul(31).wrapping_add(i.wrapping_mul(7)).wrapping_add(i >> 8);
    let b = (x % 251) as u8;
    if b == crate::oalloc::POISON || b == crate::oalloc::GUARD {
        b ^ 0x11
    } else {
        b
    }
}

// ---------------------------------------------------------------------------------------------

pub struct Args {
    pub pos: Vec<String>,
    pub kv: HashMap<String, String>,
}
impl Args {
    pub fn parse(it: impl Iterator<Item = String>) -> Args {
        let mut pos = Vec::new();
        let mut kv = HashMap::new();
        let v: Vec<String> = it.collect();
        let mut i = 0;
        while i < v.len() {
            if let Some(k) = v[i].strip_prefix("--") {
                if let Some((a, b)) = k.split_once('=') {
                    kv.insert(a.to_string(), b.to_string());
                } else if i + 1 < v.len() && !v[i + 1].starts_with("--") {
                    kv.insert(k.to_string(), v[i + 1].clone());
                    i += 1;
                } else {
                    kv.insert(k.to_string(), "1".to_string());
                }
            } else {
                pos.push(v[i].clone());
            }
            i += 1;
        }
        Args { pos, kv }
    }
    pub fn u64(&self, k: &str, d: u64) -> u64 {
        self.kv.get(k).map(|s| s.parse().unwrap_or(d)).unwrap_or(d)
    }
    pub fn usize(&self, k: &str, d: usize) -> usize {
        self.u64(k, d as u64) as usize
    }
    pub fn str(&self, k: &str, d: &str) -> String {
        self.kv.get(k).cloned().unwrap_or_else(|| d.to_string())
    }
    pub fn has(&self, k: &str) -> bool {
        self.kv.contains_key(k)
    }
}

pub fn profile_name() -> &'static str {
    if cfg!(debug_assertions) {
        "dbg"
    } else {
        "rel"
    }
}

/// Write a set of u64 hashes as raw little-endian bytes (merged exactly by the driver).
pub fn write_hashes(path: &str, set: &std::collections::HashSet<u64>) {
    use std::io::Write;
    if let Ok(f) = std::fs::File::create(path) {
        let mut w = std::io::BufWriter::new(f);
        for h in set {
            let _ = w.write_all(&h.to_le_bytes());
        }
    }
}
