// included into hist_ops.rs: deriving ops (produce a second handle), reserve family, append family

impl<'a> Interp<'a> {
    fn exec_b_derive(&mut self, op: Op, pre: &[HInfo; NSLOT]) {
        let kk = op.k;
        let Some(i) = self.find(op.s, 1) else { return self.skip(kk) };
        let Some(j) = self.free_slot() else { return self.skip(kk) };
        let hi = self.infos[i];
        let sib = if kk == k::BSliceRef { self.find_other(op.t, 1, i) } else { None };
        let sib_range = sib.map(|t| (self.infos[t].ptr, self.infos[t].len));
        let Slot::B(mut b, mut m) = self.take(i) else { unreachable!() };
        let len = b.len();
        let p = b.as_ptr() as usize;
        self.c07_src(i, m.depth);
        let promotes = hi.blk.is_some() && m.origin == Origin::Heap && !self.shares_block(i);
        match kk {
            k::BClone => {
                tr!(self, "s{} = s{}.clone()", j, i);
                // (every fourth time through Clone::clone_from into a fresh empty handle)
                let (r, d) = if op.a % 4 == 3 {
                    call(|| {
                        let mut c = Bytes::new();
                        c.clone_from(&b);
                        c
                    })
                } else {
                    call(|| b.clone())
                };
                match r {
                    Ok(c) => {
                        let ok = len == 0 || (c.as_ptr() as usize == p && b.as_ptr() as usize == p);
                        self.c07("Bytes::clone", ok, &d, format!("src {:#x} clone {:#x}", p, c.as_ptr() as usize));
                        if promotes && len > 0 {
                            self.flags.transition = true;
                            self.st.repr[3] += 1;
                        }
                        let cm = self.new_model(m.bytes.clone(), m.origin, m.depth + 1);
                        self.put_b(i, b, m);
                        self.put_b(j, c, cm);
                        self.finish(kk, false, Expect::Ok, pre);
                    }
                    Err(()) => {
                        self.put_b(i, b, m);
                        self.finish(kk, true, Expect::Ok, pre);
                    }
                }
            }
            k::BSlice => {
                let x = sel_idx(op.a, len, len);
                let y = sel_idx(op.b, len, len);
                use std::ops::Bound::*;
                let (sb, eb) = match op.c % 8 {
                    0 | 7 => (Included(x), Excluded(y)),
                    1 => (Included(x), Included(y)),
                    2 => (Unbounded, Excluded(y)),
                    3 => (Included(x), Unbounded),
                    4 => (Unbounded, Unbounded),
                    5 => (Unbounded, Included(y)),
                    _ => (Excluded(x), Excluded(y)),
                };
                let begin = match sb {
                    Included(n) => Some(n),
                    Excluded(n) => n.checked_add(1),
                    Unbounded => Some(0),
                };
                let end = match eb {
                    Included(n) => n.checked_add(1),
                    Excluded(n) => Some(n),
                    Unbounded => Some(len),
                };
                let valid = match (begin, end) {
                    (Some(bg), Some(en)) => bg <= en && en <= len,
                    _ => false,
                };
                let expect = if valid { Expect::Ok } else { Expect::MustPanic };
                tr!(self, "s{} = s{}.slice(({:?}, {:?})) [len {}]", j, i, sb, eb, len);
                let (r, d) = call(|| b.slice((sb, eb)));
                match r {
                    Ok(c) => {
                        if valid {
                            let (bg, en) = (begin.unwrap(), end.unwrap());
                            let ok = en == bg || c.as_ptr() as usize == p + bg;
                            self.c07("Bytes::slice", ok, &d, format!("src {:#x} begin {} result {:#x}", p, bg, c.as_ptr() as usize));
                            if promotes && en > bg {
                                self.flags.transition = true;
                                self.st.repr[3] += 1;
                            }
                            let origin = if en == bg { Origin::Static } else { m.origin };
                            let cm = self.new_model(m.bytes[bg..en].to_vec(), origin, m.depth + 1);
                            self.put_b(j, c, cm);
                        } else {
                            drop(c);
                        }
                        self.put_b(i, b, m);
                        self.finish(kk, false, expect, pre);
                    }
                    Err(()) => {
                        self.put_b(i, b, m);
                        self.finish(kk, true, expect, pre);
                    }
                }
            }
            k::BSliceRef => {
                // build the subset argument
                let mode = op.c % 6;
                let (sub_ptr, sub_len): (usize, usize) = match mode {
                    0 | 1 => {
                        // a sub-slice of self (in contract)
                        let x = sel_idx(op.a, len, len).min(len);
                        let y = sel_idx(op.b, len, len).min(len);
                        let (x, y) = if x <= y { (x, y) } else { (y, x) };
                        (p + x, y - x)
                    }
                    2 | 3 => match sib_range {
                        // a sub-slice of a sibling handle: in contract iff it happens to lie inside self
                        Some((sp, sl)) => {
                            let x = sel_idx(op.a, sl, sl).min(sl);
                            let y = sel_idx(op.b, sl, sl).min(sl);
                            let (x, y) = if x <= y { (x, y) } else { (y, x) };
                            (sp + x, y - x)
                        }
                        None => (FOREIGN.as_ptr() as usize, sel_small(op.a, 64)),
                    },
                    4 => (FOREIGN.as_ptr() as usize, sel_small(op.a, 64)),
                    _ => (p, 0),
                };
                let valid = sub_len == 0 || (sub_ptr >= p && sub_ptr + sub_len <= p + len);
                let expect = if valid { Expect::Ok } else { Expect::MustPanic };
                tr!(self, "s{} = s{}.slice_ref(&[{:#x},+{}]) [self {:#x},+{}; mode {}]", j, i, sub_ptr, sub_len, p, len, mode);
                // SAFETY: the range is inside a live handle's bytes / the FOREIGN static (or empty)
                let sub: &[u8] = if sub_len == 0 { &[] } else { unsafe { std::slice::from_raw_parts(sub_ptr as *const u8, sub_len) } };
                let (r, d) = call(|| b.slice_ref(sub));
                match r {
                    Ok(c) => {
                        if valid {
                            let ok = sub_len == 0 || c.as_ptr() as usize == sub_ptr;
                            self.c07("Bytes::slice_ref", ok, &d, format!("subset {:#x} result {:#x}", sub_ptr, c.as_ptr() as usize));
                            let origin = if sub_len == 0 { Origin::Static } else { m.origin };
                            let bytes = if sub_len == 0 { Vec::new() } else { m.bytes[sub_ptr - p..sub_ptr - p + sub_len].to_vec() };
                            if promotes && sub_len > 0 {
                                self.flags.transition = true;
                            }
                            let cm = self.new_model(bytes, origin, m.depth + 1);
                            self.put_b(j, c, cm);
                        } else {
                            drop(c);
                        }
                        self.put_b(i, b, m);
                        self.finish(kk, false, expect, pre);
                    }
                    Err(()) => {
                        self.put_b(i, b, m);
                        self.finish(kk, true, expect, pre);
                    }
                }
            }
            k::BSplitOff | k::BSplitTo | k::BCopyToBytes => {
                let at = sel_idx(op.a, len, len);
                let expect = if at > len { Expect::MustPanic } else { Expect::Ok };
                tr!(self, "s{} = s{}.{}({}) [len {}]", j, i, k::name(kk), at, len);
                let (r, d) = match kk {
                    k::BSplitOff => call(|| b.split_off(at)),
                    k::BSplitTo => call(|| b.split_to(at)),
                    _ => call(|| b.copy_to_bytes(at)),
                };
                match r {
                    Ok(c) => {
                        if at <= len {
                            let (sp, cp) = (b.as_ptr() as usize, c.as_ptr() as usize);
                            if kk == k::BSplitOff {
                                let tail = m.bytes.split_off(at);
                                // address guarantee holds for empty results as well
                                self.c07("Bytes::split_off", sp == p && cp == p + at, &d, format!("self {:#x}->{:#x}, ret {:#x} expected {:#x}", p, sp, cp, p + at));
                                let cm = self.new_model(tail, m.origin, m.depth + 1);
                                self.put_b(j, c, cm);
                            } else {
                                let head: Vec<u8> = m.bytes.drain(..at).collect();
                                if kk == k::BSplitTo {
                                    self.c07("Bytes::split_to", cp == p && sp == p + at, &d, format!("self {:#x}->{:#x} expected {:#x}, ret {:#x}", p, sp, p + at, cp));
                                } else if at > 0 && at < len {
                                    // copy_to_bytes on Bytes is documented as a split: same guarantee for the non-empty case
                                    self.c07("Bytes::copy_to_bytes", cp == p && sp == p + at, &d, "not a shallow split".to_string());
                                }
                                let cm = self.new_model(head, m.origin, m.depth + 1);
                                self.put_b(j, c, cm);
                            }
                            if at == 0 || at == len {
                                self.flags.c07_empty_split = true;
                                self.st.repr[13] += 1;
                            } else if promotes {
                                self.flags.transition = true;
                                self.st.repr[3] += 1;
                            }
                        } else {
                            drop(c);
                        }
                        self.put_b(i, b, m);
                        self.finish(kk, false, expect, pre);
                    }
                    Err(()) => {
                        self.put_b(i, b, m);
                        self.finish(kk, true, expect, pre);
                    }
                }
            }
            _ => unreachable!(),
        }
    }

    fn exec_m_derive(&mut self, op: Op, pre: &[HInfo; NSLOT]) {
        let kk = op.k;
        let Some(i) = self.find(op.s, 2) else { return self.skip(kk) };
        let Some(j) = self.free_slot() else { return self.skip(kk) };
        let Slot::M(mut b, mut m) = self.take(i) else { unreachable!() };
        let (len, cap) = (b.len(), b.capacity());
        let p = b.as_ptr() as usize;
        self.c07_src(i, m.depth);
        let at = match kk {
            k::MSplit => len,
            k::MClone => 0,
            _ => sel_idx(op.a, len, cap),
        };
        let expect = match kk {
            k::MSplitOff if at > cap => Expect::MustPanic,
            k::MSplitTo | k::MCopyToBytes if at > len => Expect::MustPanic,
            _ => Expect::Ok,
        };
        tr!(self, "s{} = s{}.{}({}) [len {} cap {}]", j, i, k::name(kk), at, len, cap);
        if kk == k::MCopyToBytes {
            let (r, d) = call(|| b.copy_to_bytes(at));
            match r {
                Ok(c) => {
                    if at <= len {
                        let head: Vec<u8> = m.bytes.drain(..at).collect();
                        if at > 0 {
                            let ok = c.as_ptr() as usize == p && (b.is_empty() || b.as_ptr() as usize == p + at);
                            self.c07("BytesMut::copy_to_bytes(split_to+freeze)", ok, &d, "not shallow".to_string());
                        }
                        let cm = self.new_model(head, Origin::Heap, m.depth + 1);
                        self.put_b(j, c, cm);
                        self.flags.transition = true;
                    } else {
                        drop(c);
                    }
                    self.put_m(i, b, m);
                    self.finish(kk, false, expect, pre);
                }
                Err(()) => {
                    self.put_m(i, b, m);
                    self.finish(kk, true, expect, pre);
                }
            }
            return;
        }
        let (r, d) = match kk {
            k::MSplitOff => call(|| b.split_off(at)),
            k::MSplitTo => call(|| b.split_to(at)),
            k::MSplit => call(|| b.split()),
            _ if op.b % 4 == 3 => call(|| {
                let mut c = BytesMut::new();
                c.clone_from(&b);
                c
            }),
            _ => call(|| b.clone()),
        };
        match r {
            Ok(c) => {
                let (sp, cp) = (b.as_ptr() as usize, c.as_ptr() as usize);
                match kk {
                    k::MSplitOff if at <= cap => {
                        let tail = if at <= len { m.bytes.split_off(at) } else { Vec::new() };
                        self.c07("BytesMut::split_off", sp == p && cp == p + at, &d, format!("self {:#x}->{:#x}, ret {:#x} expected {:#x}", p, sp, cp, p + at));
                        if b.capacity() != at || c.capacity() != cap - at {
                            self.viol("C04", "split_off-capacities", format!("cap {} at {} -> self {} ret {}", cap, at, b.capacity(), c.capacity()));
                        }
                        if at == 0 || at == cap || tail.is_empty() {
                            self.flags.c07_empty_split = true;
                        }
                        let cm = self.new_model(tail, Origin::Heap, m.depth + 1);
                        self.put_m(j, c, cm);
                        self.st.repr[10] += 1;
                    }
                    k::MSplitTo | k::MSplit if at <= len => {
                        let head: Vec<u8> = m.bytes.drain(..at).collect();
                        self.c07("BytesMut::split_to/split", cp == p && sp == p + at, &d, format!("self {:#x}->{:#x} expected {:#x}, ret {:#x}", p, sp, p + at, cp));
                        if c.capacity() != at || b.capacity() != cap - at {
                            self.viol("C04", "split_to-capacities", format!("cap {} at {} -> self {} ret {}", cap, at, b.capacity(), c.capacity()));
                        }
                        if at == 0 || at == len {
                            self.flags.c07_empty_split = true;
                        }
                        let cm = self.new_model(head, Origin::Heap, m.depth + 1);
                        self.put_m(j, c, cm);
                        self.st.repr[10] += 1;
                    }
                    k::MClone => {
                        let cm = self.new_model(m.bytes.clone(), Origin::Heap, 0);
                        self.put_m(j, c, cm);
                    }
                    _ => drop(c),
                }
                self.put_m(i, b, m);
                self.finish(kk, false, expect, pre);
            }
            Err(()) => {
                self.put_m(i, b, m);
                self.finish(kk, true, expect, pre);
            }
        }
    }

    fn exec_reserve(&mut self, op: Op, pre: &[HInfo; NSLOT]) {
        let kk = op.k;
        let Some(i) = self.find(op.s, 2) else { return self.skip(kk) };
        if kk == k::MSoleReclaim {
            // macro-op: drop every other handle on this allocation, clear, then claim the buffer back
            if let Some(bl) = self.infos[i].blk {
                for j in 0..NSLOT {
                    if j != i && (self.infos[j].kind == 1 || self.infos[j].kind == 2) {
                        if self.infos[j].blk.map_or(false, |x| x.serial == bl.serial) {
                            self.note_drop(j);
                            let s = self.take(j);
                            tr!(self, "  (macro) drop(s{})", j);
                            let _ = call(move || drop(s));
                        }
                    }
                }
            }
            if let Slot::M(b, m) = &mut self.slots[i] {
                tr!(self, "  (macro) s{}.clear()", i);
                let _ = call(|| b.clear());
                m.bytes.clear();
            }
            self.refresh_infos();
        }
        let h = self.infos[i];
        let (len, cap) = (h.len, h.cap);
        let (alloc, off) = match h.blk {
            Some(b) => (b.size, h.ptr - b.ptr),
            None => (cap, 0),
        };
        let sole = self.sole_owner(i);
        let n = if kk == k::MSoleReclaim {
            match sole {
                Some(sz) => match op.a % 6 {
                    0 => sz,
                    1 => sz.saturating_sub(1),
                    2 => 1.min(sz),
                    3 => sz / 2,
                    4 => cap.min(sz),
                    _ => (cap + 1).min(sz),
                },
                None => return self.skip(kk),
            }
        } else {
            sel_reserve(op.a, len, cap, alloc, off)
        };
        let spare = cap - len;
        let total = len.checked_add(n);
        let unrepresentable = total.map_or(true, |t| t > IMAX);
        if n > spare && !unrepresentable && total.unwrap() > LIMIT {
            self.st.excluded_band += 1;
            return self.skip(kk);
        }
        let use_reserve = kk == k::MReserve || (kk == k::MSoleReclaim && op.c % 2 == 1);
        let Slot::M(mut b, m) = self.take(i) else { unreachable!() };
        let p = b.as_ptr() as usize;
        let claim = matches!(sole, Some(sz) if n <= sz);
        if n > spare {
            self.flags.reserve_past_early = true;
        }
        tr!(
            self,
            "s{}.{}({}) [len {} cap {} block {} off {} sole {:?}]",
            i,
            if use_reserve { "reserve" } else { "try_reclaim" },
            n,
            len,
            cap,
            alloc,
            off,
            sole
        );
        if use_reserve {
            let expect = if n <= spare {
                Expect::Ok
            } else if unrepresentable {
                Expect::MustPanic
            } else {
                Expect::Ok
            };
            let (r, d) = call(|| b.reserve(n));
            let panicked = r.is_err();
            if !panicked {
                if expect == Expect::MustPanic {
                    self.viol(
                        "C04",
                        "reserve-returned-for-unrepresentable-size",
                        format!("reserve({}) with len {} returned; capacity() = {}", n, len, b.capacity()),
                    );
                } else {
                    if b.capacity() - b.len() < n {
                        self.viol("C04", "reserve-promise", format!("reserve({}) returned with capacity {} len {}", n, b.capacity(), b.len()));
                    }
                    if claim {
                        self.st.c08_sole_claims += 1;
                        if off != 0 {
                            self.flags.c08_sole_at_offset = true;
                        }
                        if d.allocs > 0 {
                            let det = format!("reserve({}) on an empty sole handle of a {}-byte allocation allocated {} block(s)", n, alloc, d.allocs);
                            self.viol("C08", "sole-owner-reserve-allocated", det.clone());
                            self.viol("C18", "sole-owner-reserve-allocated", det);
                        }
                    }
                    if n > spare && d.byte_allocs == 0 {
                        self.flags.transition = true; // reclaim / shift to front
                    }
                }
            }
            self.dg_u(b.capacity() as u64);
            self.put_m(i, b, m);
            self.finish(kk, panicked, expect, pre);
        } else {
            let (r, d) = call(|| b.try_reclaim(n));
            match r {
                Ok(res) => {
                    self.dg_u(res as u64);
                    if res {
                        if b.capacity() - b.len() < n {
                            self.viol("C04", "try_reclaim-promise", format!("try_reclaim({}) = true with capacity {} len {}", n, b.capacity(), b.len()));
                        }
                        if d.allocs > 0 {
                            self.viol("C04", "try_reclaim-allocated", format!("try_reclaim({}) allocated {} block(s)", n, d.allocs));
                        }
                        if n > spare {
                            self.flags.transition = true;
                        }
                    } else {
                        let same = b.as_ptr() as usize == p && b.len() == len && b.capacity() == cap;
                        if !same {
                            self.viol(
                                "C04",
                                "try_reclaim-false-changed-handle",
                                format!("ptr {:#x}->{:#x} len {}->{} cap {}->{}", p, b.as_ptr() as usize, len, b.len(), cap, b.capacity()),
                            );
                        }
                    }
                    if claim {
                        self.st.c08_sole_claims += 1;
                        if off != 0 {
                            self.flags.c08_sole_at_offset = true;
                        }
                        if !res {
                            self.viol(
                                "C08",
                                "sole-owner-try_reclaim-false",
                                format!("try_reclaim({}) = false for an empty sole handle of a {}-byte allocation (offset {})", n, alloc, off),
                            );
                        }
                    }
                    self.put_m(i, b, m);
                    self.finish(kk, false, Expect::Ok, pre);
                }
                Err(()) => {
                    self.put_m(i, b, m);
                    // a panic is tolerated only where the request is not representable
                    self.finish(kk, true, if unrepresentable && n > spare { Expect::Either } else { Expect::Ok }, pre);
                }
            }
        }
    }

    fn exec_append(&mut self, op: Op, pre: &[HInfo; NSLOT]) {
        let kk = op.k;
        let Some(i) = self.find(op.s, 2) else { return self.skip(kk) };
        let h = self.infos[i];
        let (len, cap) = (h.len, h.cap);
        // what is appended
        let mut data: Vec<u8>;
        let mut expect = Expect::Ok;
        let mut huge: Option<usize> = None;
        match kk {
            k::MPutBytes => {
                let (alloc, off) = match h.blk {
                    Some(b) => (b.size, h.ptr - b.ptr),
                    None => (cap, 0),
                };
                let n = sel_reserve(op.a, len, cap, alloc, off);
                let total = len.checked_add(n);
                if total.map_or(true, |t| t > IMAX) {
                    expect = Expect::MustPanic;
                    huge = Some(n);
                    data = Vec::new();
                } else if total.unwrap() > LIMIT {
                    self.st.excluded_band += 1;
                    return self.skip(kk);
                } else {
                    data = vec![if op.b % 4 == 0 { 0 } else { op.b as u8 }; n];
                }
            }
            k::MPutU8 => data = vec![op.b as u8],
            k::MWriteStr => {
                let n = sel_size(op.a).min(4096);
                // valid UTF-8 with some multi-byte characters (write_char / write_fmt see them one char at a time)
                let s: String = content(op.c, n).iter().map(|b| if b & 0xC0 == 0xC0 { ['\u{e9}', '\u{20ac}', '\u{1f600}', '\u{df}'][(b & 3) as usize] } else { (b & 0x7f) as char }).collect();
                data = s.into_bytes();
            }
            k::MPutBuf | k::MExtendBytes => {
                let n = sel_size(op.a).min(4096);
                data = content(op.c, n);
            }
            _ => {
                let n = sel_size(op.a);
                data = content(op.c, n);
            }
        }
        let src_bytes: Option<Bytes> = match self.find(op.t, 1) {
            Some(t) if kk == k::MPutBuf || kk == k::MExtendBytes => match &self.slots[t] {
                Slot::B(sb, sm) => {
                    let c = call(|| sb.clone()).0.ok();
                    if c.is_some() {
                        if kk == k::MPutBuf && op.b % 4 >= 2 {
                            let mut d2 = data.clone();
                            d2.extend_from_slice(&sm.bytes);
                            data = d2;
                        } else if kk == k::MPutBuf {
                            data = sm.bytes.clone();
                        } else {
                            let mut d2 = sm.bytes.clone();
                            d2.extend_from_slice(&data);
                            d2.extend_from_slice(&sm.bytes);
                            data = d2;
                        }
                    }
                    c
                }
                _ => None,
            },
            _ => None,
        };
        let Slot::M(mut b, mut m) = self.take(i) else { unreachable!() };
        if data.len() > cap - len {
            self.flags.reserve_past_early = true;
        }
        tr!(self, "s{}.{}({} bytes{}) [len {} cap {}]", i, k::name(kk), huge.unwrap_or(data.len()), if src_bytes.is_some() { ", via Bytes source" } else { "" }, len, cap);
        let dref = &data;
        let (r, _) = match kk {
            k::MExtendSlice => call(|| b.extend_from_slice(dref)),
            k::MPutSlice => call(|| b.put_slice(dref)),
            k::MPutU8 => call(|| b.put_u8(dref[0])),
            k::MPutBytes => {
                let n = huge.unwrap_or(dref.len());
                let v = if op.b % 4 == 0 { 0 } else { op.b as u8 };
                call(|| b.put_bytes(v, n))
            }
            k::MWriteStr => call(|| {
                use std::fmt::Write;
                let st = std::str::from_utf8(dref).unwrap();
                match op.b % 3 {
                    1 => write!(b, "{}", st).unwrap(),
                    2 => st.chars().for_each(|c| b.write_char(c).unwrap()),
                    _ => b.write_str(st).unwrap(),
                }
            }),
            k::MExtendIter => match op.b % 4 {
                0 => call(|| b.extend(dref.iter().copied())),
                1 => call(|| b.extend(dref.iter())),
                2 => call(|| b.extend(dref.iter().copied().filter(|_| true))), // size_hint lower bound 0
                _ => call(|| b.extend(dref.clone())),
            },
            k::MPutBuf => match (src_bytes, op.b % 4) {
                (Some(sb), 0) => call(|| b.put(sb)),
                (Some(sb), 1) => {
                    let n = sb.len();
                    call(|| b.put(sb.take(n)))
                }
                (Some(sb), _) => {
                    let pre_n = dref.len() - sb.len();
                    call(|| b.put((&dref[..pre_n]).chain(sb)))
                }
                (None, _) => call(|| b.put(&dref[..])),
            },
            k::MExtendBytes => match src_bytes {
                Some(sb) => {
                    let mid = Bytes::copy_from_slice(&dref[sb.len()..dref.len() - sb.len()]);
                    let parts = vec![sb.clone(), mid, sb];
                    call(|| b.extend(parts))
                }
                None => {
                    let parts = vec![Bytes::copy_from_slice(dref)];
                    call(|| b.extend(parts))
                }
            },
            _ => unreachable!(),
        };
        let panicked = r.is_err();
        if !panicked && expect == Expect::Ok {
            m.bytes.extend_from_slice(&data);
        }
        self.put_m(i, b, m);
        self.finish(kk, panicked, expect, pre);
    }
}

