//! Oracle allocator: the process-wide `#[global_allocator]` of the harness binaries.
//!
//! Wraps `System`. Every block is self-describing (header in its front red zone), has guard
//! bytes on both sides, and can be placed on an even or odd address (for `align == 1`).
//! Blocks born inside a *bracket* (a call into the crate under test, or the creation of a payload
//! handed to it) while a case is active are additionally entered in a ledger that supports
//! range queries, quarantine + poison of freed blocks and balance checks.
//!
//! Rules kept throughout: never allocate, never panic and never call anything that might do
//! either while holding the lock; complaints go into a fixed array that the interpreter drains.

use std::alloc::{GlobalAlloc, Layout, System};
use std::cell::UnsafeCell;
use std::sync::atomic::{AtomicBool, AtomicU64, AtomicUsize, Ordering::*};

pub struct Oracle;

const MAGIC_LIVE: u64 = 0x0BAD_C0DE_A110_C8ED;
const MAGIC_FREED: u64 = 0xF4EE_DF4E_EDF4_EED0;
const HDR: usize = 48;
const FRONT: usize = 128;
const BACK: usize = 64;
pub const GUARD: u8 = 0xA5;
pub const POISON: u8 = 0xDD;

const F_TRACKED: u64 = 1;
const F_CRATE: u64 = 2; // born inside a crate-call bracket (else: payload bracket)
const F_ARENA: u64 = 4; // packed mode: bump-allocated back to back, no header, no red zones

pub const BR_NONE: usize = 0;
pub const BR_CRATE: usize = 1;
pub const BR_PAYLOAD: usize = 2;

static SERIAL: AtomicU64 = AtomicU64::new(1);
static PARITY: AtomicUsize = AtomicUsize::new(0);
static QUARANTINE: AtomicBool = AtomicBool::new(true);
static ACTIVE: AtomicBool = AtomicBool::new(false);
static BRACKET: AtomicUsize = AtomicUsize::new(0);
static PASSTHROUGH: AtomicBool = AtomicBool::new(false);
static LOCK: AtomicBool = AtomicBool::new(false);
static PACKED: AtomicBool = AtomicBool::new(false);
static ARENA_OFF: AtomicUsize = AtomicUsize::new(0);
const ARENA_SIZE: usize = 1 << 22;
struct ArenaMem(UnsafeCell<[u8; ARENA_SIZE]>);
unsafe impl Sync for ArenaMem {}
static ARENA: ArenaMem = ArenaMem(UnsafeCell::new([0; ARENA_SIZE]));
#[inline]
fn arena_base() -> usize {
    ARENA.0.get() as usize
}
#[inline]
fn in_arena(p: usize) -> bool {
    let b = arena_base();
    p >= b && p < b + ARENA_SIZE
}

const CAP: usize = 8192;
const VCAP: usize = 32;

#[derive(Clone, Copy, Debug, PartialEq, Eq)]
pub enum BState {
    Live,
    Quarantined,
}

#[derive(Clone, Copy, Debug)]
pub struct BlockInfo {
    pub ptr: usize,
    pub size: usize,
    pub align: usize,
    pub serial: u64,
    pub state: BState,
    pub by_crate: bool,
}

#[derive(Clone, Copy)]
struct Entry {
    ptr: usize,
    size: usize,
    align: usize,
    serial: u64,
    state: u8, // 1 live, 2 quarantined
    flags: u64,
}

const EMPTY_ENTRY: Entry = Entry { ptr: 0, size: 0, align: 0, serial: 0, state: 0, flags: 0 };

#[derive(Clone, Copy, Debug, PartialEq, Eq)]
pub enum VKind {
    DoubleFree,
    WildFree,
    LayoutMismatch,
    RedZoneFront,
    RedZoneBack,
    WriteAfterFree,
    TableOverflow,
}

#[derive(Clone, Copy, Debug)]
pub struct AllocViolation {
    pub kind: VKind,
    pub ptr: usize,
    pub size: usize,
    pub align: usize,
    pub got_size: usize,
    pub got_align: usize,
    pub serial: u64,
}

const EMPTY_V: AllocViolation = AllocViolation {
    kind: VKind::WildFree,
    ptr: 0,
    size: 0,
    align: 0,
    got_size: 0,
    got_align: 0,
    serial: 0,
};

#[derive(Clone, Copy, Default, Debug)]
pub struct Counters {
    /// allocations made inside crate-call brackets
    pub allocs: u64,
    /// of those, `align == 1 && size > 0`: a byte buffer was created
    pub byte_allocs: u64,
    pub frees: u64,
    pub bytes: u64,
    /// live / peak bytes of tracked blocks (requested sizes)
    pub live_bytes: u64,
    pub peak_bytes: u64,
    pub live_blocks: u64,
    /// live / peak bytes of tracked byte buffers only (align == 1)
    pub live_buf_bytes: u64,
    pub peak_buf_bytes: u64,
}

struct State {
    n: usize,
    table: [Entry; CAP],
    nv: usize,
    viol: [AllocViolation; VCAP],
    viol_dropped: usize,
    c: Counters,
    overflow: bool,
}

struct Global(UnsafeCell<State>);
unsafe impl Sync for Global {}

static G: Global = Global(UnsafeCell::new(State {
    n: 0,
    table: [EMPTY_ENTRY; CAP],
    nv: 0,
    viol: [EMPTY_V; VCAP],
    viol_dropped: 0,
    c: Counters {
        allocs: 0,
        byte_allocs: 0,
        frees: 0,
        bytes: 0,
        live_bytes: 0,
        peak_bytes: 0,
        live_blocks: 0,
        live_buf_bytes: 0,
        peak_buf_bytes: 0,
    },
    overflow: false,
}));

struct Guard;
#[inline]
fn lock() -> Guard {
    while LOCK.compare_exchange_weak(false, true, Acquire, Relaxed).is_err() {
        std::hint::spin_loop();
    }
    Guard
}
impl Drop for Guard {
    #[inline]
    fn drop(&mut self) {
        LOCK.store(false, Release);
    }
}
#[inline]
#[allow(clippy::mut_from_ref)]
unsafe fn st(_g: &Guard) -> &mut State {
    &mut *G.0.get()
}

fn push_v(s: &mut State, v: AllocViolation) {
    if s.nv < VCAP {
        s.viol[s.nv] = v;
        s.nv += 1;
    } else {
        s.viol_dropped += 1;
    }
}

#[inline]
fn round_up(x: usize, a: usize) -> usize {
    (x + a - 1) & !(a - 1)
}

#[inline]
unsafe fn hdr_read(user: *mut u8, i: usize) -> u64 {
    (user.sub(HDR) as *const u64).add(i).read_unaligned()
}
#[inline]
unsafe fn hdr_write(user: *mut u8, i: usize, v: u64) {
    (user.sub(HDR) as *mut u64).add(i).write_unaligned(v)
}
// header slots: 0 magic, 1 size, 2 align, 3 serial, 4 flags, 5 base_off

unsafe impl GlobalAlloc for Oracle {
    unsafe fn alloc(&self, layout: Layout) -> *mut u8 {
        if PASSTHROUGH.load(Relaxed) {
            return System.alloc(layout);
        }
        let size = layout.size();
        let align = layout.align();
        if align == 1 && size > 0 && PACKED.load(Relaxed) {
            let br = BRACKET.load(Relaxed);
            if br != BR_NONE && ACTIVE.load(Relaxed) {
                let off = ARENA_OFF.fetch_add(size, Relaxed);
                if off + size <= ARENA_SIZE {
                    let user = (arena_base() + off) as *mut u8;
                    let serial = SERIAL.fetch_add(1, Relaxed);
                    let flags = F_TRACKED | F_ARENA | if br == BR_CRATE { F_CRATE } else { 0 };
                    let g = lock();
                    let s = st(&g);
                    if s.n < CAP {
                        s.table[s.n] = Entry { ptr: user as usize, size, align, serial, state: 1, flags };
                        s.n += 1;
                    } else {
                        s.overflow = true;
                    }
                    if br == BR_CRATE {
                        s.c.allocs += 1;
                        s.c.bytes += size as u64;
                        s.c.byte_allocs += 1;
                    }
                    s.c.live_blocks += 1;
                    s.c.live_bytes += size as u64;
                    s.c.live_buf_bytes += size as u64;
                    if s.c.live_bytes > s.c.peak_bytes {
                        s.c.peak_bytes = s.c.live_bytes;
                    }
                    if s.c.live_buf_bytes > s.c.peak_buf_bytes {
                        s.c.peak_buf_bytes = s.c.live_buf_bytes;
                    }
                    return user;
                }
            }
        }
        let a = align.max(16);
        let front = round_up(FRONT, a);
        let total = match front.checked_add(size).and_then(|x| x.checked_add(BACK + 1)) {
            Some(t) => t,
            None => return std::ptr::null_mut(),
        };
        let sys = match Layout::from_size_align(total, a) {
            Ok(l) => l,
            Err(_) => return std::ptr::null_mut(),
        };
        let base = System.alloc(sys);
        if base.is_null() {
            return base;
        }
        let shift = if align == 1 { PARITY.load(Relaxed) & 1 } else { 0 };
        let user = base.add(front + shift);
        // guards
        std::ptr::write_bytes(base, GUARD, front + shift - HDR);
        std::ptr::write_bytes(user.add(size), GUARD, total - (front + shift) - size);
        let serial = SERIAL.fetch_add(1, Relaxed);
        let br = BRACKET.load(Relaxed);
        let tracked = br != BR_NONE && ACTIVE.load(Relaxed);
        let mut flags = 0u64;
        if tracked {
            flags |= F_TRACKED;
            if br == BR_CRATE {
                flags |= F_CRATE;
            }
        }
        hdr_write(user, 0, MAGIC_LIVE);
        hdr_write(user, 1, size as u64);
        hdr_write(user, 2, align as u64);
        hdr_write(user, 3, serial);
        hdr_write(user, 4, flags);
        hdr_write(user, 5, (front + shift) as u64);
        if tracked {
            let g = lock();
            let s = st(&g);
            if s.n < CAP {
                s.table[s.n] = Entry { ptr: user as usize, size, align, serial, state: 1, flags };
                s.n += 1;
            } else {
                s.overflow = true;
            }
            if br == BR_CRATE {
                s.c.allocs += 1;
                s.c.bytes += size as u64;
                if align == 1 && size > 0 {
                    s.c.byte_allocs += 1;
                }
            }
            s.c.live_blocks += 1;
            s.c.live_bytes += size as u64;
            if s.c.live_bytes > s.c.peak_bytes {
                s.c.peak_bytes = s.c.live_bytes;
            }
            if align == 1 {
                s.c.live_buf_bytes += size as u64;
                if s.c.live_buf_bytes > s.c.peak_buf_bytes {
                    s.c.peak_buf_bytes = s.c.live_buf_bytes;
                }
            }
        }
        user
    }

    unsafe fn dealloc(&self, ptr: *mut u8, layout: Layout) {
        if PASSTHROUGH.load(Relaxed) {
            return System.dealloc(ptr, layout);
        }
        if in_arena(ptr as usize) {
            let g = lock();
            let s = st(&g);
            let mut live = usize::MAX;
            let mut dead = usize::MAX;
            let mut i = s.n;
            while i > 0 {
                i -= 1;
                if s.table[i].ptr == ptr as usize && s.table[i].flags & F_ARENA != 0 {
                    if s.table[i].state == 1 {
                        live = i;
                        break;
                    } else if dead == usize::MAX {
                        dead = i;
                    }
                }
            }
            let mk = |kind, size, align, serial| AllocViolation { kind, ptr: ptr as usize, size, align, got_size: layout.size(), got_align: layout.align(), serial };
            if live == usize::MAX {
                push_v(s, mk(if dead != usize::MAX { VKind::DoubleFree } else { VKind::WildFree }, 0, 0, 0));
                return;
            }
            let e = s.table[live];
            if e.size != layout.size() || e.align != layout.align() {
                push_v(s, mk(VKind::LayoutMismatch, e.size, e.align, e.serial));
            }
            if BRACKET.load(Relaxed) == BR_CRATE {
                s.c.frees += 1;
            }
            s.c.live_blocks = s.c.live_blocks.saturating_sub(1);
            s.c.live_bytes = s.c.live_bytes.saturating_sub(e.size as u64);
            s.c.live_buf_bytes = s.c.live_buf_bytes.saturating_sub(e.size as u64);
            s.table[live].state = 2;
            drop(g);
            std::ptr::write_bytes(ptr, POISON, e.size);
            return;
        }
        let magic = hdr_read(ptr, 0);
        if magic != MAGIC_LIVE {
            let g = lock();
            let s = st(&g);
            let kind = if magic == MAGIC_FREED { VKind::DoubleFree } else { VKind::WildFree };
            push_v(
                s,
                AllocViolation {
                    kind,
                    ptr: ptr as usize,
                    size: 0,
                    align: 0,
                    got_size: layout.size(),
                    got_align: layout.align(),
                    serial: 0,
                },
            );
            return; // never hand a pointer we do not own to the system allocator
        }
        let size = hdr_read(ptr, 1) as usize;
        let align = hdr_read(ptr, 2) as usize;
        let serial = hdr_read(ptr, 3);
        let flags = hdr_read(ptr, 4);
        let base_off = hdr_read(ptr, 5) as usize;
        let a = align.max(16);
        let front = round_up(FRONT, a);
        let total = front + size + BACK + 1;
        let base = ptr.sub(base_off);
        let mismatch = layout.size() != size || layout.align() != align;
        let (fz, bz) = check_guards(base, ptr, size, base_off, total);
        let tracked = flags & F_TRACKED != 0;
        if mismatch || fz || bz || tracked {
            let g = lock();
            let s = st(&g);
            let mk = |kind| AllocViolation {
                kind,
                ptr: ptr as usize,
                size,
                align,
                got_size: layout.size(),
                got_align: layout.align(),
                serial,
            };
            if mismatch {
                push_v(s, mk(VKind::LayoutMismatch));
            }
            if fz {
                push_v(s, mk(VKind::RedZoneFront));
            }
            if bz {
                push_v(s, mk(VKind::RedZoneBack));
            }
            if tracked {
                if BRACKET.load(Relaxed) == BR_CRATE {
                    s.c.frees += 1;
                }
                s.c.live_blocks = s.c.live_blocks.saturating_sub(1);
                s.c.live_bytes = s.c.live_bytes.saturating_sub(size as u64);
                if align == 1 {
                    s.c.live_buf_bytes = s.c.live_buf_bytes.saturating_sub(size as u64);
                }
                // find entry
                let mut idx = usize::MAX;
                let mut i = s.n;
                while i > 0 {
                    i -= 1;
                    if s.table[i].ptr == ptr as usize && s.table[i].state == 1 {
                        idx = i;
                        break;
                    }
                }
                if idx != usize::MAX && QUARANTINE.load(Relaxed) && ACTIVE.load(Relaxed) {
                    s.table[idx].state = 2;
                    drop(g);
                    std::ptr::write_bytes(ptr, POISON, size);
                    hdr_write(ptr, 0, MAGIC_FREED);
                    return;
                }
                if idx != usize::MAX {
                    s.n -= 1;
                    s.table[idx] = s.table[s.n];
                }
            }
        }
        hdr_write(ptr, 0, MAGIC_FREED);
        System.dealloc(base, Layout::from_size_align_unchecked(total, a));
    }
}

#[inline]
unsafe fn check_guards(base: *mut u8, user: *mut u8, size: usize, base_off: usize, total: usize) -> (bool, bool) {
    let mut fz = false;
    let mut bz = false;
    let fl = base_off - HDR;
    let f = std::slice::from_raw_parts(base, fl);
    if f.iter().any(|&b| b != GUARD) {
        fz = true;
    }
    let bl = total - base_off - size;
    let b = std::slice::from_raw_parts(user.add(size), bl);
    if b.iter().any(|&x| x != GUARD) {
        bz = true;
    }
    (fz, bz)
}

// ------------------------------------------------------------------------------------------
// control API (called by the interpreters, never from inside the allocator)

static INSTALLED: AtomicBool = AtomicBool::new(false);
/// true when this allocator is the process's #[global_allocator] (the `vf` binary); the fuzz
/// targets run without it and skip every ledger-based oracle
pub fn set_installed(on: bool) {
    INSTALLED.store(on, SeqCst);
}
#[inline]
pub fn installed() -> bool {
    INSTALLED.load(Relaxed)
}

pub fn set_passthrough(on: bool) {
    PASSTHROUGH.store(on, SeqCst);
}
/// 0 = even addresses, 1 = odd addresses (both with red zones), 2 = packed: byte buffers are placed
/// back to back in an arena with no gap at all (as bump / size-class allocators do)
pub fn set_parity(p: usize) {
    PARITY.store(p & 1, SeqCst);
    PACKED.store(p == 2, SeqCst);
}
pub fn packed() -> bool {
    PACKED.load(Relaxed)
}
pub fn parity() -> usize {
    PARITY.load(Relaxed)
}
pub fn set_quarantine(on: bool) {
    QUARANTINE.store(on, SeqCst);
}

#[inline]
pub fn enter(kind: usize) -> usize {
    BRACKET.swap(kind, Relaxed)
}
#[inline]
pub fn leave(prev: usize) {
    BRACKET.store(prev, Relaxed);
}

/// Run `f` as a payload-creating bracket (blocks are tracked, not attributed to the crate).
#[inline]
pub fn payload<T>(f: impl FnOnce() -> T) -> T {
    let p = enter(BR_PAYLOAD);
    let r = f();
    leave(p);
    r
}

pub fn counters() -> Counters {
    let g = lock();
    unsafe { st(&g).c }
}

pub fn reset_peak() {
    let g = lock();
    let s = unsafe { st(&g) };
    s.c.peak_bytes = s.c.live_bytes;
    s.c.peak_buf_bytes = s.c.live_buf_bytes;
}

/// Begin a case: ledger must be empty (the previous case_end emptied it).
pub fn case_begin() {
    let g = lock();
    let s = unsafe { st(&g) };
    s.n = 0;
    s.nv = 0;
    s.viol_dropped = 0;
    s.overflow = false;
    s.c = Counters::default();
    drop(g);
    ARENA_OFF.store(0, SeqCst);
    BRACKET.store(BR_NONE, SeqCst);
    ACTIVE.store(true, SeqCst);
}

pub struct CaseEnd {
    pub leaked: Vec<BlockInfo>,
    pub overflow: bool,
}

/// End a case. The caller has dropped everything it holds. Verifies poison of quarantined
/// blocks (complaints are appended to the violation list — drain it afterwards), releases them,
/// and returns the tracked blocks that are still live (= leaked).
pub fn case_end() -> CaseEnd {
    ACTIVE.store(false, SeqCst);
    let mut leaked_buf = [EMPTY_ENTRY; 64];
    let mut nleak = 0usize;
    let overflow;
    loop {
        // pop one entry at a time so that the real free happens outside the lock
        let e = {
            let g = lock();
            let s = unsafe { st(&g) };
            if s.n == 0 {
                overflow = s.overflow;
                break;
            }
            s.n -= 1;
            s.table[s.n]
        };
        if e.flags & F_ARENA != 0 {
            if e.state == 2 {
                let body = unsafe { std::slice::from_raw_parts(e.ptr as *const u8, e.size) };
                if body.iter().any(|&b| b != POISON) {
                    let g = lock();
                    let s = unsafe { st(&g) };
                    push_v(s, AllocViolation { kind: VKind::WriteAfterFree, ptr: e.ptr, size: e.size, align: e.align, got_size: 0, got_align: 0, serial: e.serial });
                }
            } else if e.state == 1 {
                if nleak < leaked_buf.len() {
                    leaked_buf[nleak] = e;
                }
                nleak += 1;
            }
            continue;
        }
        if e.state == 2 {
            unsafe {
                let p = e.ptr as *mut u8;
                let body = std::slice::from_raw_parts(p, e.size);
                let waf = body.iter().any(|&b| b != POISON);
                let base_off = hdr_read(p, 5) as usize;
                let a = e.align.max(16);
                let front = round_up(FRONT, a);
                let total = front + e.size + BACK + 1;
                let base = p.sub(base_off);
                let (fz, bz) = check_guards(base, p, e.size, base_off, total);
                if waf || fz || bz {
                    let g = lock();
                    let s = st(&g);
                    let mk = |kind| AllocViolation {
                        kind,
                        ptr: e.ptr,
                        size: e.size,
                        align: e.align,
                        got_size: 0,
                        got_align: 0,
                        serial: e.serial,
                    };
                    if waf {
                        push_v(s, mk(VKind::WriteAfterFree));
                    }
                    if fz {
                        push_v(s, mk(VKind::RedZoneFront));
                    }
                    if bz {
                        push_v(s, mk(VKind::RedZoneBack));
                    }
                }
                System.dealloc(base, Layout::from_size_align_unchecked(total, a));
            }
        } else if e.state == 1 {
            if nleak < leaked_buf.len() {
                leaked_buf[nleak] = e;
            }
            nleak += 1;
            // strip the tracked flag so that a later free of this block is an ordinary one
            unsafe {
                let p = e.ptr as *mut u8;
                hdr_write(p, 4, 0);
            }
        }
    }
    {
        let g = lock();
        let s = unsafe { st(&g) };
        s.c.live_blocks = 0;
        s.c.live_bytes = 0;
        s.c.live_buf_bytes = 0;
    }
    let mut leaked = Vec::new();
    for e in leaked_buf.iter().take(nleak.min(64)) {
        leaked.push(info(e));
    }
    CaseEnd { leaked, overflow }
}

fn info(e: &Entry) -> BlockInfo {
    BlockInfo {
        ptr: e.ptr,
        size: e.size,
        align: e.align,
        serial: e.serial,
        state: if e.state == 2 { BState::Quarantined } else { BState::Live },
        by_crate: e.flags & F_CRATE != 0,
    }
}

/// The tracked block whose closed range `[ptr, ptr+size]` contains `addr`. Red zones guarantee
/// that closed ranges of distinct blocks never touch, but a quarantined block and a later live
/// block cannot overlap either (quarantined memory is not returned to the system until case end).
pub fn block_of(addr: usize) -> Option<BlockInfo> {
    let g = lock();
    let s = unsafe { st(&g) };
    let mut i = s.n;
    while i > 0 {
        i -= 1;
        let e = &s.table[i];
        if addr >= e.ptr && addr <= e.ptr + e.size {
            let r = info(e);
            return Some(r);
        }
    }
    None
}

/// The tracked block (live or quarantined) that owns the byte at `addr` (half-open range `[ptr, ptr+size)`).
pub fn block_of_byte(addr: usize) -> Option<BlockInfo> {
    let g = lock();
    let s = unsafe { st(&g) };
    let mut i = s.n;
    while i > 0 {
        i -= 1;
        let e = &s.table[i];
        if addr >= e.ptr && addr < e.ptr + e.size {
            return Some(info(e));
        }
    }
    None
}

/// Copies out (and clears) the recorded complaints.
pub fn take_violations(out: &mut Vec<AllocViolation>) -> usize {
    let mut tmp = [EMPTY_V; VCAP];
    let (n, dropped) = {
        let g = lock();
        let s = unsafe { st(&g) };
        let n = s.nv;
        tmp[..n].copy_from_slice(&s.viol[..n]);
        s.nv = 0;
        let d = s.viol_dropped;
        s.viol_dropped = 0;
        (n, d)
    };
    for v in tmp.iter().take(n) {
        out.push(*v);
    }
    n + dropped
}

#[inline]
pub fn has_violations() -> bool {
    let g = lock();
    unsafe { st(&g).nv > 0 }
}

/// Verify the guard bytes of every live tracked block (cheap: a handful of blocks per case).
pub fn check_live_redzones() {
    let mut bad = [EMPTY_V; 8];
    let mut nb = 0;
    {
        let g = lock();
        let s = unsafe { st(&g) };
        for i in 0..s.n {
            let e = s.table[i];
            if e.state != 1 || e.flags & F_ARENA != 0 {
                continue;
            }
            unsafe {
                let p = e.ptr as *mut u8;
                let base_off = hdr_read(p, 5) as usize;
                let a = e.align.max(16);
                let front = round_up(FRONT, a);
                let total = front + e.size + BACK + 1;
                let base = p.sub(base_off);
                let (fz, bz) = check_guards(base, p, e.size, base_off, total);
                if (fz || bz) && nb < bad.len() {
                    bad[nb] = AllocViolation {
                        kind: if fz { VKind::RedZoneFront } else { VKind::RedZoneBack },
                        ptr: e.ptr,
                        size: e.size,
                        align: e.align,
                        got_size: 0,
                        got_align: 0,
                        serial: e.serial,
                    };
                    nb += 1;
                }
            }
        }
        for v in bad.iter().take(nb) {
            push_v(s, *v);
        }
    }
    // repair the guards so that one overflow is reported once
    if nb > 0 {
        for v in bad.iter().take(nb) {
            unsafe {
                let p = v.ptr as *mut u8;
                let base_off = hdr_read(p, 5) as usize;
                let a = v.align.max(16);
                let front = round_up(FRONT, a);
                let total = front + v.size + BACK + 1;
                let base = p.sub(base_off);
                std::ptr::write_bytes(base, GUARD, base_off - HDR);
                std::ptr::write_bytes(p.add(v.size), GUARD, total - base_off - v.size);
            }
        }
    }
}

/// Live tracked byte-buffer blocks (align == 1), for the orphan check.
pub fn live_blocks(out: &mut Vec<BlockInfo>) {
    let mut tmp = [EMPTY_ENTRY; 64];
    let mut n = 0;
    {
        let g = lock();
        let s = unsafe { st(&g) };
        for i in 0..s.n {
            if s.table[i].state == 1 && n < tmp.len() {
                tmp[n] = s.table[i];
                n += 1;
            }
        }
    }
    for e in tmp.iter().take(n) {
        out.push(info(e));
    }
}
