//! Engine H runner: generators (proptest strategies, bounded-exhaustive enumerator), per-property
//! reporting filter and non-triviality rules, replay, worker JSON report.

use crate::hist::*;
use crate::oalloc;
use crate::util::{self, fnv64, Args};
use proptest::prelude::*;
use proptest::strategy::ValueTree;
use proptest::test_runner::{Config, RngAlgorithm, RngSeed, TestCaseError, TestError, TestRng, TestRunner};
use serde_json::{json, Value};
use std::cell::RefCell;
use std::collections::HashSet;

pub const HIST_PROPS: [&str; 7] = ["C01", "C02", "C03", "C04", "C07", "C08", "C13"];

#[derive(Clone, Debug)]
pub struct Case {
    pub ops: Vec<Op>,
    pub perm: u32,
}

pub fn case_json(c: &Case, parity: usize) -> Value {
    json!({
        "engine": "hist",
        "parity": parity,
        "perm": c.perm,
        "ops": c.ops.iter().map(|o| json!([o.k, o.s, o.t, o.a, o.b, o.c])).collect::<Vec<_>>(),
    })
}
pub fn case_from_json(v: &Value) -> Option<(Case, usize)> {
    let ops = v.get("ops")?.as_array()?;
    let mut out = Vec::new();
    for o in ops {
        let a = o.as_array()?;
        let g = |i: usize| a.get(i).and_then(|x| x.as_u64()).unwrap_or(0);
        out.push(Op { k: g(0) as u8, s: g(1) as u8, t: g(2) as u8, a: g(3) as u32, b: g(4) as u32, c: g(5) as u32 });
    }
    let perm = v.get("perm").and_then(|x| x.as_u64()).unwrap_or(0) as u32;
    let parity = v.get("parity").and_then(|x| x.as_u64()).unwrap_or(0) as usize;
    Some((Case { ops: out, perm }, parity))
}
fn case_text(c: &Case, parity: usize) -> String {
    let mut s = String::with_capacity(16 + c.ops.len() * 24);
    use std::fmt::Write;
    let _ = write!(s, "{{\"engine\":\"hist\",\"parity\":{},\"perm\":{},\"ops\":[", parity, c.perm);
    for (i, o) in c.ops.iter().enumerate() {
        let _ = write!(s, "{}[{},{},{},{},{},{}]", if i > 0 { "," } else { "" }, o.k, o.s, o.t, o.a, o.b, o.c);
    }
    s.push_str("]}");
    s
}

pub struct Outcome {
    pub viols: Vec<Violation>,
    pub flags: Flags,
    pub trace: Option<Vec<String>>,
    pub digest: Option<Vec<u64>>,
    pub steps: usize,
}

fn run_once(c: &Case, parity: usize, st: &mut Stats, opts: &RunOpts) -> Outcome {
    oalloc::set_parity(parity);
    oalloc::set_quarantine(true);
    oalloc::case_begin();
    let mut it = Interp::new(st, opts);
    it.run(&c.ops, c.perm);
    // whatever is still held (early end) is dropped now, inside a bracket
    let slots = std::mem::take(&mut it.slots);
    let _ = call(move || drop(slots));
    let mut viols = std::mem::take(&mut it.viols);
    let flags = it.flags;
    let trace = it.trace.take();
    let digest = it.digest.take();
    let steps = it.step;
    let owners = std::mem::take(&mut it.owners);
    drop(it);
    let end = oalloc::case_end();
    let mut av = Vec::new();
    oalloc::take_violations(&mut av);
    let clean = viols.is_empty();
    let last = c.ops.last().copied().unwrap_or_default();
    let mut push = |prop: &'static str, oracle: &'static str, detail: String| {
        if !viols.iter().any(|v| v.prop == prop) {
            viols.push(Violation { prop, oracle, detail, step: steps, op: last, soft: false });
        }
    };
    for a in av {
        push("C02", "at-case-end", format!("{:?} block ptr={:#x} size={} serial={}", a.kind, a.ptr, a.size, a.serial));
    }
    if clean {
        if !end.leaked.is_empty() {
            let b = end.leaked[0];
            let d = format!(
                "{} block(s) still allocated after every handle was dropped; first: size {} align {} serial {} ({})",
                end.leaked.len(),
                b.size,
                b.align,
                b.serial,
                if b.by_crate { "allocated by the crate" } else { "payload handed to the crate" }
            );
            push("C03", "leak", d.clone());
            push("C13", "leak", d);
        }
        for (k, o) in owners.iter().enumerate() {
            let drops = o.drops.load(std::sync::atomic::Ordering::SeqCst);
            let calls = o.as_ref_calls.load(std::sync::atomic::Ordering::SeqCst);
            if drops != 1 {
                push("C03", "owner-drop-count", format!("owner {} dropped {} times by the end of the case", k, drops));
            }
            if calls != 1 {
                push("C03", "owner-as_ref-count", format!("owner {}: as_ref called {} times", k, calls));
            }
        }
    }
    Outcome { viols, flags, trace, digest, steps }
}

/// run a case; a leak-only outcome is confirmed by re-execution (lazy one-time initialisation
/// inside std does not reproduce)
pub fn run_case(c: &Case, parity: usize, st: &mut Stats, opts: &RunOpts) -> Outcome {
    let o = run_once(c, parity, st, opts);
    if o.viols.iter().any(|v| v.oracle == "leak") && o.viols.iter().all(|v| v.oracle == "leak") {
        st.leak_retries += 1;
        let mut scratch = Stats::default();
        return run_once(c, parity, &mut scratch, opts);
    }
    o
}

pub fn nontrivial(prop: &str, f: &Flags) -> bool {
    match prop {
        "C01" => f.shared_block && f.transition,
        "C02" => f.recomputed_free || f.panic_then_free,
        "C03" => (f.three_on_block && f.out_of_order_drop) || f.conv_shared || f.owner_conv,
        "C04" => f.mm_or_mb_shared && f.reserve_past_early,
        "C07" => f.c07_offset_or_nested || f.c07_empty_split,
        "C08" => f.c08_regained || f.c08_sole_at_offset,
        "C13" => f.c13_shared_panic && f.c13_after >= 2,
        _ => f.shared_block,
    }
}
pub fn rule_text(prop: &str) -> &'static str {
    match prop {
        "C01" => "history in which at some step >=2 live handles lay in one ledger block AND a representation transition occurred (promotion by clone/slice/split of an unshared buffer, conversion or advance at a front offset, reclaim/shift by reserve without a new buffer, copy-back, freeze/unfreeze)",
        "C02" => "history that freed a crate-managed block through a handle whose address was not the block start (size recomputed from an offset view) or that contained a caught panic followed by further frees",
        "C03" => ">=3 handles on one block with a handle dropped while an older sibling was alive, or a consuming conversion of a handle that shared its block, or an owner-backed view conversion",
        "C04" => "two BytesMut (or a BytesMut and a Bytes) shared a block and a reserve/try_reclaim/append went past the early return (request > spare capacity)",
        "C07" => "a listed zero-copy op executed on a handle with a front offset or on a view of a view, or a split with an empty result",
        "C08" => "must-be-true / must-be-false decided for a handle whose block earlier held >=2 handles, or a sole-owner reclaim claim / zero-copy try_into_mut at a front offset",
        "C13" => ">=1 caught panic at a step where >=2 handles shared a block, followed by >=2 further ops",
        _ => "",
    }
}

// ---------------------------------------------------------------------------------------------
// proptest strategies

const IN_TABLE: [u32; 17] = [0, 1, 2, 3, 5, 6, 8, 9, 10, 11, 20, 21, 22, 24, 25, 28, 30];
const OOC_TABLE: [u32; 15] = [4, 7, 12, 13, 14, 15, 16, 17, 18, 19, 21, 22, 23, 26, 27];

fn arg(ooc_w: u32) -> impl Strategy<Value = u32> {
    prop_oneof![
        30 => proptest::sample::select(&IN_TABLE[..]),
        ooc_w => proptest::sample::select(&OOC_TABLE[..]),
        (60 - ooc_w.min(50)) => ARG_TABLE..ARG_MAX,
    ]
}

fn kind_weights(prop: &str) -> Vec<(u32, u8)> {
    let mut w: Vec<(u32, u8)> = Vec::new();
    for &c in k::CTORS {
        w.push((2, c));
    }
    for &c in k::BOPS {
        w.push((6, c));
    }
    for &c in k::MOPS {
        w.push((6, c));
    }
    w.push((3, k::VIntoBytes));
    w.push((1, k::VDrop));
    let mut boost = |ks: &[u8], f: u32| {
        for e in w.iter_mut() {
            if ks.contains(&e.1) {
                e.0 *= f;
            }
        }
    };
    boost(&[k::BDrop, k::MDrop], 1);
    match prop {
        "C04" => {
            boost(k::MOPS, 2);
            boost(&[k::MReserve, k::MTryReclaim, k::MSplitOff, k::MSplitTo, k::MFillSpare, k::MUnsplit, k::MSoleReclaim], 2);
        }
        "C08" => boost(&[k::BTryIntoMut, k::MSoleReclaim, k::MReserve, k::MTryReclaim, k::BClone, k::BDrop, k::MFreeze], 2),
        "C03" => boost(&[k::NewFromOwner, k::BClone, k::BDrop, k::MDrop, k::BIntoVec, k::BIntoMut, k::MIntoVec, k::MUnsplit], 2),
        "C07" => boost(&[k::BSlice, k::BSliceRef, k::BSplitOff, k::BSplitTo, k::MSplitOff, k::MSplitTo, k::MFreeze, k::MUnsplit, k::BTryIntoMut], 2),
        _ => {}
    }
    w
}

fn op_strategy(prop: &str, ooc_w: u32) -> BoxedStrategy<Op> {
    let w = kind_weights(prop);
    let kinds: Vec<(u32, BoxedStrategy<u8>)> = w.into_iter().map(|(wt, c)| (wt, Just(c).boxed())).collect();
    let kind = proptest::strategy::Union::new_weighted(kinds);
    (kind, 0u8..NSLOT as u8, 0u8..NSLOT as u8, arg(ooc_w), arg(ooc_w), arg(ooc_w))
        .prop_map(|(k, s, t, a, b, c)| Op { k, s, t, a, b, c })
        .boxed()
}
fn ctor_strategy() -> BoxedStrategy<Op> {
    let kinds: Vec<(u32, BoxedStrategy<u8>)> = vec![
        (2, Just(k::NewStatic).boxed()),
        (6, Just(k::NewFromVec).boxed()),
        (3, Just(k::NewFromBox).boxed()),
        (2, Just(k::NewCopy).boxed()),
        (1, Just(k::NewFromString).boxed()),
        (4, Just(k::NewFromOwner).boxed()),
        (5, Just(k::MutWithCap).boxed()),
        (2, Just(k::MutZeroed).boxed()),
        (6, Just(k::MutFromSlice).boxed()),
        (1, Just(k::MutFromIter).boxed()),
        (1, Just(k::MutNew).boxed()),
        (1, Just(k::NewVec).boxed()),
    ];
    let kind = proptest::strategy::Union::new_weighted(kinds);
    (kind, arg(0), arg(0), arg(0)).prop_map(|(k, a, b, c)| Op { k, s: 0, t: 0, a, b, c }).boxed()
}

pub fn case_strategy(prop: &str, max_len: usize) -> BoxedStrategy<Case> {
    let ooc = if prop == "C13" || prop == "C02" { 22 } else { 5 };
    (
        proptest::collection::vec(ctor_strategy(), 1..=3),
        proptest::collection::vec(op_strategy(prop, ooc), 0..=max_len),
        any::<u32>(),
    )
        .prop_map(|(mut pre, body, perm)| {
            pre.extend(body);
            Case { ops: pre, perm }
        })
        .boxed()
}

// ---------------------------------------------------------------------------------------------
// bounded-exhaustive enumeration

fn o(k: u8, s: u8, t: u8, a: u32, b: u32, c: u32) -> Op {
    Op { k, s, t, a, b, c }
}

/// start states: name + constructing prefix (sizes small; contents position dependent)
pub fn start_states() -> Vec<(&'static str, Vec<Op>)> {
    let n9 = 8; // SIZES[8] == 9
    let n16 = 11; // 16
    vec![
        ("static", vec![o(k::NewStatic, 0, 0, 3, 8, 0)]),
        ("boxed", vec![o(k::NewFromVec, 0, 0, n9, 0, 1)]),
        ("boxed+clone", vec![o(k::NewFromVec, 0, 0, n9, 0, 2), o(k::BClone, 0, 0, 0, 0, 0)]),
        ("boxed+clone-dropped", vec![o(k::NewFromVec, 0, 0, n9, 0, 3), o(k::BClone, 0, 0, 0, 0, 0), o(k::BDrop, 1, 0, 0, 0, 0)]),
        ("vec-spare", vec![o(k::NewFromVec, 0, 0, n9, 5, 4)]),
        ("owner", vec![o(k::NewFromOwner, 0, 0, n9, 0, 5)]),
        ("owner-inline", vec![o(k::NewFromOwner, 0, 0, n9, 3, 6)]),
        ("frozen-vec-full", vec![o(k::MutFromSlice, 0, 0, n9, 0, 7), o(k::MFreeze, 0, 0, 0, 0, 0)]),
        ("frozen-vec-spare", vec![o(k::MutWithCap, 0, 0, n16, 0, 0), o(k::MExtendSlice, 0, 0, n9, 0, 8), o(k::MFreeze, 0, 0, 0, 0, 0)]),
        ("frozen-vec-offset", vec![o(k::MutFromSlice, 0, 0, n9, 0, 9), o(k::MAdvance, 0, 0, 9, 0, 0), o(k::MFreeze, 0, 0, 0, 0, 0)]),
        ("frozen-arc", vec![o(k::MutFromSlice, 0, 0, n9, 0, 10), o(k::MSplitOff, 0, 0, 23, 0, 0), o(k::MFreeze, 0, 0, 0, 0, 0)]),
        ("mut-vec", vec![o(k::MutWithCap, 0, 0, n16, 0, 0), o(k::MExtendSlice, 0, 0, n9, 0, 11)]),
        ("mut-vec-off", vec![o(k::MutWithCap, 0, 0, n16, 0, 0), o(k::MExtendSlice, 0, 0, n9, 0, 12), o(k::MAdvance, 0, 0, 9, 0, 0)]),
        ("mut-arc-shared", vec![o(k::MutWithCap, 0, 0, n16, 0, 0), o(k::MExtendSlice, 0, 0, n9, 0, 13), o(k::MSplitTo, 0, 0, 20, 0, 0)]),
        (
            "mut-arc-unique",
            vec![o(k::MutWithCap, 0, 0, n16, 0, 0), o(k::MExtendSlice, 0, 0, n9, 0, 14), o(k::MSplitTo, 0, 0, 20, 0, 0), o(k::MDrop, 1, 0, 0, 0, 0)],
        ),
        ("mut-from-bytes", vec![o(k::NewFromVec, 0, 0, n9, 0, 15), o(k::BIntoMut, 0, 0, 0, 0, 0)]),
        ("mut-from-shared-bytes", vec![o(k::NewFromVec, 0, 0, n9, 5, 16), o(k::BAdvance, 0, 0, 9, 0, 0), o(k::BIntoMut, 0, 0, 0, 0, 0)]),
    ]
}

/// the reduced alphabet: every op kind with boundary selectors. `full`: more argument values and
/// two target slots.
pub fn alphabet(full: bool) -> Vec<Op> {
    let mut v = Vec::new();
    let idx: &[u32] = if full { &[0, 1, 2, 3, 4, 6, 7, 8, 12] } else { &[0, 1, 3, 4, 8, 6, 7] };
    let res: &[u32] = if full { &[0, 1, 3, 4, 5, 6, 7, 8, 12, 13, 14, 17, 18, 19, 21, 22] } else { &[1, 4, 5, 7, 8, 13, 14, 18, 19, 22] };
    let slots: &[u8] = if full { &[0, 1] } else { &[0] };
    for &s in slots {
        v.push(o(k::BClone, s, 0, 0, 0, 0));
        for &a in &[0u32, 1, 8, 3] {
            for &b in &[1u32, 8, 3, 4] {
                for c in 0..2 {
                    if full || c == 0 {
                        v.push(o(k::BSlice, s, 0, a, b, c));
                    }
                }
            }
        }
        v.push(o(k::BSlice, s, 0, 0, 12, 1));
        for &(a, b, c) in &[(0u32, 3u32, 0u32), (1, 8, 0), (8, 3, 0), (3, 3, 0), (0, 3, 2), (1, 3, 2), (0, 1, 4), (0, 0, 5)] {
            v.push(o(k::BSliceRef, s, 1 - s.min(1), a, b, c));
        }
        for &kk in &[k::BSplitOff, k::BSplitTo, k::BAdvance, k::BTruncate, k::BCopyToBytes] {
            for &a in idx {
                v.push(o(kk, s, 0, a, 0, 0));
            }
        }
        for &kk in &[k::BClear, k::BTryIntoMut, k::BIntoMut, k::BIntoVec, k::BDrop, k::BIntoIter] {
            v.push(o(kk, s, 0, 0, 0, 0));
        }
        for &kk in &[k::MSplitOff, k::MSplitTo, k::MAdvance, k::MCopyToBytes, k::MTruncate] {
            for &a in idx {
                v.push(o(kk, s, 0, a, 0, 0));
            }
        }
        for &kk in &[k::MSplit, k::MClear, k::MFreeze, k::MClone, k::MIntoVec, k::MDrop, k::MIntoIter, k::MIndexWrite] {
            v.push(o(kk, s, 0, 0, 0x5a, 0));
        }
        for &a in &[0u32, 1, 3, 4, 5, 6, 7, 8] {
            v.push(o(k::MResize, s, 0, a, 0x77, 0));
        }
        for &a in res {
            v.push(o(k::MReserve, s, 0, a, 0, 0));
            v.push(o(k::MTryReclaim, s, 0, a, 0, 0));
        }
        for &a in &[0u32, 1, 17] {
            v.push(o(k::MExtendSlice, s, 0, a, 0, 40));
        }
        for &a in &[1u32, 4, 14, 19] {
            v.push(o(k::MPutBytes, s, 0, a, 0x33, 0));
        }
        v.push(o(k::MPutBuf, s, 0, 4, 0, 41));
        v.push(o(k::MPutBuf, s, 0, 4, 2, 42));
        v.push(o(k::MExtendIter, s, 0, 5, 0, 43));
        v.push(o(k::MExtendIter, s, 0, 5, 2, 44));
        v.push(o(k::MWriteStr, s, 0, 5, 0, 45));
        v.push(o(k::MExtendBytes, s, 0, 2, 0, 46));
        v.push(o(k::MUnsplit, s, 1 - s.min(1), 0, 0, 0));
        v.push(o(k::MFillSpare, s, 0, 0, 50, 0));
        v.push(o(k::MFillSpare, s, 0, 3, 51, 0));
        v.push(o(k::MSoleReclaim, s, 0, 0, 0, 0));
        v.push(o(k::MSoleReclaim, s, 0, 1, 0, 1));
        v.push(o(k::VIntoBytes, s, 0, 0, 0, 0));
    }
    v.push(o(k::VDrop, 0, 0, 0, 0, 0));
    v.push(o(k::NewFromVec, 0, 0, 5, 0, 60));
    v.push(o(k::MutWithCap, 0, 0, 7, 0, 0));
    v
}

// ---------------------------------------------------------------------------------------------

pub struct Collector {
    pub prop: String,
    pub st: Stats,
    pub evals: u64,
    pub nontriv: HashSet<u64>,
    pub samples: Vec<Value>,
    pub violations: Vec<Value>,
    pub foreign_props: std::collections::BTreeMap<String, u64>,
    pub failed: bool,
    pub parities: Vec<usize>,
    pub strict_all: bool,
}

impl Collector {
    pub fn new(prop: &str, parities: Vec<usize>) -> Self {
        Collector {
            prop: prop.to_string(),
            st: Stats::default(),
            evals: 0,
            nontriv: HashSet::new(),
            samples: Vec::new(),
            violations: Vec::new(),
            foreign_props: Default::default(),
            failed: false,
            parities,
            strict_all: false,
        }
    }

    /// Execute one case in the configured parities. Returns Some(description) if the property
    /// under check was violated.
    pub fn eval(&mut self, c: &Case, count: bool) -> Option<(usize, Violation)> {
        let opts = RunOpts { trace: false, digest: false };
        for pi in 0..self.parities.len() {
            let parity = self.parities[pi];
            let text = case_text(c, parity);
            util::set_current_case(&text);
            let mut scratch = Stats::default();
            let out = run_case(c, parity, if count { &mut self.st } else { &mut scratch }, &opts);
            if count {
                self.evals += 1;
                self.st.cases += 1;
                if nontrivial(&self.prop, &out.flags) && out.viols.is_empty() {
                    let h = fnv64(text.as_bytes());
                    if self.nontriv.insert(h) && self.samples.len() < 4 && (self.nontriv.len() % 97 == 1) {
                        let tr = trace_of(c, parity);
                        self.samples.push(json!({"case": case_json(c, parity), "trace": tr}));
                    }
                }
            }
            if !out.viols.is_empty() {
                if let Some(v) = out.viols.iter().find(|v| v.prop == self.prop || self.strict_all) {
                    return Some((parity, v.clone()));
                }
                if count {
                    self.st.foreign += 1;
                    for v in &out.viols {
                        *self.foreign_props.entry(v.prop.to_string()).or_insert(0) += 1;
                    }
                }
            }
        }
        None
    }

    pub fn record_violation(&mut self, c: &Case, parity: usize, v: &Violation, how: &str) {
        let tr = trace_of(c, parity);
        self.violations.push(json!({
            "property": v.prop,
            "oracle": v.oracle,
            "detail": v.detail,
            "step": v.step,
            "op": k::name(v.op.k),
            "found_by": how,
            "profile": util::profile_name(),
            "replay": case_json(c, parity),
            "trace": tr,
        }));
    }
}

pub fn trace_of(c: &Case, parity: usize) -> Vec<String> {
    let mut st = Stats::default();
    let out = run_once(c, parity, &mut st, &RunOpts { trace: true, digest: false });
    let mut t = out.trace.unwrap_or_default();
    for v in &out.viols {
        t.push(format!("!! {} [{}] at step {}: {}", v.prop, v.oracle, v.step, v.detail));
    }
    t
}

/// greedy shrink used for enumerated / replayed cases (proptest shrinks its own)
fn shrink_plain(col: &mut Collector, c: &Case) -> Case {
    let mut best = c.clone();
    let mut progress = true;
    while progress {
        progress = false;
        let mut i = 0;
        while i < best.ops.len() {
            let mut t = best.clone();
            t.ops.remove(i);
            if col.eval(&t, false).is_some() {
                best = t;
                progress = true;
            } else {
                i += 1;
            }
        }
    }
    best
}

pub fn stats_json(st: &Stats) -> Value {
    let mut ops = serde_json::Map::new();
    for &kk in k::ALL {
        let i = kk as usize;
        if st.op_exec[i] + st.op_skip[i] > 0 {
            ops.insert(k::name(kk).to_string(), json!({"executed": st.op_exec[i], "panicked": st.op_panic[i], "skipped(no target/free slot/excluded)": st.op_skip[i]}));
        }
    }
    let mut repr = serde_json::Map::new();
    for (i, n) in REPR_NAMES.iter().enumerate() {
        repr.insert(n.to_string(), json!(st.repr[i]));
    }
    json!({
        "cases": st.cases, "steps": st.steps, "ops": ops, "representations_reached": repr,
        "excluded_by_construction(allocation band (1MiB, isize::MAX])": st.excluded_band,
        "c01_handle_reads_compared": st.c01_reads, "c02_ranges_checked": st.c02_ranges, "c04_region_pairs_checked": st.c04_pairs,
        "c07_zero_copy_checks": st.c07_checks, "c08_must_be_true": st.c08_true, "c08_must_be_false": st.c08_false, "c08_left_open": st.c08_open,
        "c08_zero_copy_try_into_mut": st.c08_try_into_mut_zero_copy, "c08_sole_owner_claims": st.c08_sole_claims,
        "c13_states_compared_after_panic": st.c13_panics_checked, "documented_noops": st.c13_noops,
        "c03_orphan_checks": st.c03_orphan_checks, "c03_owner_checks": st.c03_owner_checks,
        "cases_ended_by_another_property's_violation": st.foreign, "leak_reexecutions": st.leak_retries,
    })
}

pub fn main_hist(args: &Args) -> i32 {
    util::install_crash_reporter();
    util::silence_panics();
    let prop = args.str("prop", "C01");
    let seed = args.u64("seed", 1);
    let worker = args.u64("worker", 0);
    let workers = args.u64("workers", 1).max(1);
    let parities: Vec<usize> = match args.str("parity", "all").as_str() {
        "even" => vec![0],
        "odd" => vec![1],
        "packed" => vec![2],
        "both" => vec![0, 1],
        _ => vec![0, 1, 2],
    };
    let mut col = Collector::new(&prop, parities);
    col.strict_all = args.has("strict-all");

    if let Some(path) = args.kv.get("replay") {
        let txt = std::fs::read_to_string(path).unwrap_or_default();
        let v: Value = serde_json::from_str(&txt).unwrap_or(Value::Null);
        let Some((c, parity)) = case_from_json(&v) else {
            eprintln!("bad replay file");
            return 2;
        };
        col.parities = vec![parity];
        let r = col.eval(&c, true);
        let tr = trace_of(&c, parity);
        if let Some((p, v)) = r {
            col.record_violation(&c, p, &v, "replay");
        }
        println!("{}", json!({"evaluations": col.evals, "violations": col.violations, "trace": tr}));
        return if col.violations.is_empty() { 0 } else { 1 };
    }

    let cases = args.u64("cases", 1000);
    let max_len = args.usize("max-len", 40);
    let enum_len = args.usize("enum-len", 0);
    let enum_full = args.has("enum-full");
    let mut exhaustive: Vec<Value> = Vec::new();

    // ---- bounded-exhaustive part
    if enum_len > 0 {
        let alpha = alphabet(enum_full);
        let starts = start_states();
        let n = alpha.len() as u64;
        let total_per_start = n.pow(enum_len as u32);
        let mut done: u64 = 0;
        'outer: for (_name, prefix) in &starts {
            let mut idx = worker;
            while idx < total_per_start {
                let mut ops = prefix.clone();
                let mut x = idx;
                for _ in 0..enum_len {
                    ops.push(alpha[(x % n) as usize]);
                    x /= n;
                }
                let c = Case { ops, perm: (idx % 24) as u32 };
                if let Some((p, v)) = col.eval(&c, true) {
                    let small = shrink_plain(&mut col, &c);
                    let (p2, v2) = col.eval(&small, false).unwrap_or((p, v));
                    col.record_violation(&small, p2, &v2, "bounded-exhaustive enumeration");
                    col.failed = true;
                    break 'outer;
                }
                done += 1;
                idx += workers;
            }
        }
        exhaustive.push(json!({
            "space": format!("{} start states x alphabet({} ops)^{} x parities {:?}", starts.len(), alpha.len(), enum_len, col.parities),
            "histories_this_worker": done,
            "histories_total": total_per_start * starts.len() as u64,
            "complete": !col.failed,
        }));
    }

    // ---- random walks with shrinking
    if cases > 0 && !col.failed {
        let strat = case_strategy(&prop, max_len);
        let mut s = [0u8; 32];
        s[..8].copy_from_slice(&seed.to_le_bytes());
        s[8..16].copy_from_slice(&worker.to_le_bytes());
        s[16..24].copy_from_slice(&fnv64(prop.as_bytes()).to_le_bytes());
        let rng = TestRng::from_seed(RngAlgorithm::ChaCha, &s);
        let cfg = Config {
            cases: cases as u32,
            failure_persistence: None,
            max_shrink_iters: 20000,
            rng_seed: RngSeed::Fixed(seed),
            ..Config::default()
        };
        let mut runner = TestRunner::new_with_rng(cfg, rng);
        let cell = RefCell::new(&mut col);
        let res = runner.run(&strat, |c| {
            let mut g = cell.borrow_mut();
            let counting = !g.failed;
            match g.eval(&c, counting) {
                Some((_p, v)) => {
                    g.failed = true;
                    Err(TestCaseError::fail(format!("{} {}", v.prop, v.oracle)))
                }
                None => Ok(()),
            }
        });
        drop(cell);
        match res {
            Ok(()) => {}
            Err(TestError::Fail(_, c)) => {
                if let Some((p, v)) = col.eval(&c, false) {
                    col.record_violation(&c, p, &v, "random walk, shrunk by proptest");
                } else {
                    eprintln!("shrunk case did not reproduce");
                }
            }
            Err(TestError::Abort(r)) => {
                eprintln!("proptest aborted: {}", r);
                return 2;
            }
        }
    }
    if let Some(p) = args.kv.get("hashes-out") {
        util::write_hashes(p, &col.nontriv);
    }
    // always provide a few samples
    if col.samples.is_empty() && col.violations.is_empty() {
        let strat = case_strategy(&prop, 12);
        let mut runner = TestRunner::deterministic();
        for _ in 0..2 {
            if let Ok(t) = strat.new_tree(&mut runner) {
                let c = t.current();
                col.samples.push(json!({"case": case_json(&c, 0), "trace": trace_of(&c, 0)}));
            }
        }
    }
    let out = json!({
        "engine": "hist", "property": prop, "profile": util::profile_name(), "seed": seed, "worker": worker,
        "evaluations": col.evals,
        "nontrivial_distinct_this_worker": col.nontriv.len(),
        "exhaustive": exhaustive,
        "histogram": stats_json(&col.st),
        "foreign_violations_by_property": col.foreign_props,
        "samples": col.samples,
        "violations": col.violations,
    });
    println!("{}", out);
    if col.violations.is_empty() {
        0
    } else {
        1
    }
}
