//! Engine B node types: recursive enums over the crate's own Buf / BufMut implementors and
//! adapters. Every trait method is forwarded (bufnode_gen.rs) to the concrete crate type, so the
//! adapter code under test is what runs at any nesting, while the harness can still walk the tree.

use bytes::buf::{Chain, Limit, Take, UninitSlice};
use bytes::{Buf, BufMut, Bytes, BytesMut, TryGetError};
use std::collections::VecDeque;
use std::mem::MaybeUninit;

pub struct MRef<T: 'static> {
    ptr: *mut T,
    pub r: &'static mut T,
}
impl<T> MRef<T> {
    pub fn new(t: T) -> Self {
        let ptr = Box::into_raw(Box::new(t));
        // SAFETY: the heap node lives until Drop below; `r` is the only path to it.
        MRef { ptr, r: unsafe { &mut *ptr } }
    }
    pub fn inner(&self) -> &T {
        &*self.r
    }
    pub fn inner_mut(&mut self) -> &mut T {
        &mut *self.r
    }
    pub fn into_inner(self) -> T {
        let p = self.ptr;
        std::mem::forget(self);
        unsafe { *Box::from_raw(p) }
    }
}
impl<T> Drop for MRef<T> {
    fn drop(&mut self) {
        unsafe { drop(Box::from_raw(self.ptr)) }
    }
}

/// An honest user-defined Buf (only the three required methods; every other method is the trait's
/// default body): hands out chunks of at most `max_chunk` bytes and, after its real data, `extra`
/// virtual filler bytes (0x5A) - so `remaining()` can be close to usize::MAX without any allocation.
pub struct UserBuf {
    pub data: Vec<u8>,
    pub pos: usize,
    pub max_chunk: usize,
    pub extra: usize,
}
pub static FILLER: [u8; 64] = [0x5A; 64];
impl Buf for UserBuf {
    fn remaining(&self) -> usize {
        (self.data.len() - self.pos).saturating_add(self.extra)
    }
    fn chunk(&self) -> &[u8] {
        if self.pos < self.data.len() {
            let end = (self.pos + self.max_chunk.max(1)).min(self.data.len());
            &self.data[self.pos..end]
        } else {
            &FILLER[..self.extra.min(64).min(self.max_chunk.max(1))]
        }
    }
    fn advance(&mut self, cnt: usize) {
        assert!(cnt <= self.remaining(), "advance past the end of a UserBuf");
        let real = cnt.min(self.data.len() - self.pos);
        self.pos += real;
        self.extra -= cnt - real;
    }
}

pub enum Node {
    Slice(&'static [u8]),
    User(UserBuf),
    Bytes(Bytes),
    BytesMut(BytesMut),
    Deque(VecDeque<u8>),
    #[cfg(feature = "bstd")]
    CursorVec(std::io::Cursor<Vec<u8>>),
    #[cfg(feature = "bstd")]
    CursorBytes(std::io::Cursor<Bytes>),
    Chain(Chain<Box<Node>, Box<Node>>),
    Take(Take<Box<Node>>),
    MutRef(MRef<Node>),
    Boxed(Box<Node>),
}

pub enum NodeMut {
    Vec(Vec<u8>),
    BytesMut(BytesMut),
    SliceMut(&'static mut [u8]),
    UninitMut(&'static mut [MaybeUninit<u8>]),
    Chain(Chain<Box<NodeMut>, Box<NodeMut>>),
    Limit(Limit<Box<NodeMut>>),
    MutRef(MRef<NodeMut>),
    Boxed(Box<NodeMut>),
}

include!("bufnode_gen.rs");
