//! Engine F (C17): fault scripts. User-supplied safe trait impls (Buf, AsRef<[u8]>, Iterator,
//! serde SeqAccess) lie or panic according to a script; every crate entry point that consumes such a
//! value is driven with them under the oracle allocator. Allowed: any return value, any panic.
//! Violations: allocator complaints, out-of-bounds writes into fixed targets, leaks of blocks the
//! crate allocated itself, process death.

use crate::hist::call;
use crate::oalloc;
use crate::util::{self, fnv64, Args};
use bytes::{Buf, BufMut, Bytes, BytesMut};
use proptest::prelude::*;
use proptest::test_runner::{Config, RngAlgorithm, RngSeed, TestCaseError, TestError, TestRng, TestRunner};
use serde_json::{json, Value};
use std::cell::Cell;
use std::collections::HashSet;
use std::rc::Rc;

#[derive(Default)]
pub struct LieLog {
    pub calls: Cell<usize>,
    pub lies: Cell<usize>,
    pub after_lie: Cell<usize>,
    pub panics: Cell<usize>,
}
impl LieLog {
    fn tick(&self, lied: bool) {
        self.calls.set(self.calls.get() + 1);
        if self.lies.get() > 0 {
            self.after_lie.set(self.after_lie.get() + 1);
        }
        if lied {
            self.lies.set(self.lies.get() + 1);
        }
    }
}

pub struct LyingBuf {
    data: Vec<u8>,
    /// a separate tiny allocation: "shorter" answers come from here, so that a consumer that combines the
    /// pointer of one chunk() call with the length of another leaves this block (visible to ASan / Miri)
    alt: Box<[u8]>,
    pos: usize,
    script: Rc<Vec<u8>>,
    budget: usize,
    log: Rc<LieLog>,
    vectored: bool,
}
impl LyingBuf {
    pub fn new(n: usize, script: Rc<Vec<u8>>, log: Rc<LieLog>, vectored: bool) -> Self {
        let data: Vec<u8> = (0..n).map(|i| (i as u8).wrapping_mul(3) | 1).collect();
        let alt: Box<[u8]> = data.iter().take(1).copied().collect::<Vec<u8>>().into_boxed_slice();
        LyingBuf { data, alt, pos: 0, script, budget: 400, log, vectored }
    }
    fn code(&self) -> u8 {
        let i = self.log.calls.get();
        if i >= self.budget {
            self.log.panics.set(self.log.panics.get() + 1);
            panic!("call budget exceeded (scripted)");
        }
        self.script.get(i).copied().unwrap_or(0) % 8
    }
    fn true_rem(&self) -> usize {
        self.data.len() - self.pos
    }
}
impl Buf for LyingBuf {
    fn remaining(&self) -> usize {
        let c = self.code();
        self.log.tick(!matches!(c, 0 | 6));
        let t = self.true_rem();
        match c {
            1 => 0,
            2 => t + 1,
            3 => t + 7,
            4 => t.saturating_sub(1),
            5 => usize::MAX,
            7 => t + 1000,
            _ => t,
        }
    }
    fn chunk(&self) -> &[u8] {
        let c = self.code();
        self.log.tick(!matches!(c, 0 | 5 | 7));
        let rest = &self.data[self.pos..];
        match c {
            1 => {
                if rest.len() > 1 {
                    &self.alt[..]
                } else {
                    &rest[..rest.len().saturating_sub(1)]
                }
            }
            2 => rest,
            3 => &rest[..0],
            4 => &rest[..rest.len().min(1)],
            6 => &self.data[..],
            _ => rest,
        }
    }
    fn advance(&mut self, cnt: usize) {
        let c = self.code();
        self.log.tick(!matches!(c, 0 | 4 | 6));
        let t = self.true_rem();
        match c {
            1 => {}
            2 => self.pos += (cnt.saturating_add(3)).min(t),
            3 => {
                self.log.panics.set(self.log.panics.get() + 1);
                panic!("advance panics (scripted)")
            }
            5 => self.pos += cnt.saturating_sub(1).min(t),
            7 => self.pos = self.data.len(),
            _ => self.pos += cnt.min(t),
        }
    }
    #[cfg(feature = "bstd")]
    fn chunks_vectored<'a>(&'a self, dst: &mut [std::io::IoSlice<'a>]) -> usize {
        if !self.vectored {
            // the trait's default
            if dst.is_empty() {
                return 0;
            }
            if self.has_remaining() {
                dst[0] = std::io::IoSlice::new(self.chunk());
                return 1;
            }
            return 0;
        }
        let c = self.code();
        self.log.tick(c != 0);
        let rest = &self.data[self.pos..];
        let mut filled: usize = 0;
        for (i, d) in dst.iter_mut().enumerate().take(3) {
            let a = (i * rest.len()) / 3;
            let b = ((i + 1) * rest.len()) / 3;
            *d = std::io::IoSlice::new(&rest[a..b]);
            filled += 1;
        }
        match c {
            1 => 0,
            2 => dst.len(),
            3 => filled.saturating_sub(1),
            4 => (filled + 1).min(dst.len()),
            5 => dst.len() + 3, // a safe impl may return any number
            6 => usize::MAX,
            _ => filled,
        }
    }
}

pub struct LyingAsRef {
    a: Vec<u8>,
    b: Vec<u8>,
    script: Rc<Vec<u8>>,
    log: Rc<LieLog>,
}
impl AsRef<[u8]> for LyingAsRef {
    fn as_ref(&self) -> &[u8] {
        let i = self.log.calls.get();
        let c = self.script.get(i).copied().unwrap_or(0) % 8;
        self.log.tick(c != 0);
        match c {
            1 => &self.b[..],
            2 => &self.a[..self.a.len() / 2],
            3 => {
                self.log.panics.set(self.log.panics.get() + 1);
                panic!("as_ref panics (scripted)")
            }
            4 => &self.a[..0],
            5 => &self.b[..self.b.len().min(1)],
            _ => &self.a[..],
        }
    }
}
// the scripts are read-only and the log is only touched from the thread that drives the case
unsafe impl Send for LyingAsRef {}

pub struct LyingIter {
    n: usize,
    i: usize,
    hint: u8,
    /// `next()` call number that panics (scripted), if any
    panic_at: Option<usize>,
    log: Rc<LieLog>,
}
/// which `next()` call of an iterator panics: from the second script byte (one case in four has a panic)
fn iter_panic_at(script: &[u8], n: usize) -> Option<usize> {
    let b = *script.get(1).unwrap_or(&0) as usize;
    match b % 4 {
        3 => Some((b / 4) % (n + 2)),
        _ => None,
    }
}
fn scripted_iter_panic(log: &LieLog, at: Option<usize>, call: usize) {
    if at == Some(call) {
        log.panics.set(log.panics.get() + 1);
        panic!("iterator next() panicked (scripted)");
    }
}
impl Iterator for LyingIter {
    type Item = u8;
    fn next(&mut self) -> Option<u8> {
        self.log.tick(false);
        scripted_iter_panic(&self.log, self.panic_at, self.i);
        if self.i < self.n {
            self.i += 1;
            Some(self.i as u8)
        } else {
            None
        }
    }
    fn size_hint(&self) -> (usize, Option<usize>) {
        let left = self.n - self.i;
        self.log.tick(self.hint % 8 != 0);
        match self.hint % 8 {
            1 => (0, Some(0)),
            2 => (left / 2, Some(left / 2)),
            3 => (left + 100, Some(left + 100)),
            4 => (usize::MAX, None),
            5 => (left + 5, Some(left.saturating_sub(1))),
            6 => (0, None),
            7 => (left + 4096, None),
            _ => (left, Some(left)),
        }
    }
}

struct BytesIter {
    parts: Vec<Bytes>,
    hint: u8,
    panic_at: Option<usize>,
    log: Rc<LieLog>,
}
impl Iterator for BytesIter {
    type Item = Bytes;
    fn next(&mut self) -> Option<Bytes> {
        self.log.tick(false);
        scripted_iter_panic(&self.log, self.panic_at, self.parts.len());
        self.parts.pop()
    }
    fn size_hint(&self) -> (usize, Option<usize>) {
        self.log.tick(self.hint % 8 != 0);
        match self.hint % 8 {
            1 => (0, Some(0)),
            4 => (usize::MAX, None),
            3 => (self.parts.len() + 50, None),
            _ => (self.parts.len(), Some(self.parts.len())),
        }
    }
}

#[derive(Clone, Debug)]
pub struct FCase {
    pub consumer: u16,
    pub n: u16,
    pub param: u16,
    pub script: Vec<u8>,
}
impl FCase {
    pub fn to_json(&self) -> Value {
        json!({"engine": "fault", "consumer": self.consumer, "n": self.n, "param": self.param, "script": self.script})
    }
    pub fn from_json(v: &Value) -> Option<FCase> {
        Some(FCase {
            consumer: v["consumer"].as_u64()? as u16,
            n: v["n"].as_u64()? as u16,
            param: v["param"].as_u64()? as u16,
            script: v["script"].as_array()?.iter().map(|x| x.as_u64().unwrap_or(0) as u8).collect(),
        })
    }
}

pub const CONSUMERS: [&str; 44] = [
    "Vec<u8>::put(liar)",
    "BytesMut::put(liar)",
    "(&mut [u8]).put(liar)",
    "Chain<&mut [u8], Vec>::put(liar)",
    "Limit<Vec>::put(liar)",
    "liar.get_u8",
    "liar.get_u16",
    "liar.get_u32_le",
    "liar.get_u64",
    "liar.get_u128",
    "liar.get_uint(n)",
    "liar.get_int_le(n)",
    "liar.try_get_u32",
    "liar.try_get_u128_le",
    "liar.try_get_int(n)",
    "liar.copy_to_slice",
    "liar.try_copy_to_slice",
    "liar.copy_to_bytes",
    "liar.chunks_vectored(default)",
    "liar.take(k).copy_to_bytes",
    "liar.take(k).chunks_vectored (custom vectored liar)",
    "liar.take(k).get_u32",
    "liar.take(k).advance",
    "liar.chain(honest).copy_to_bytes",
    "honest.chain(liar).copy_to_bytes",
    "liar.chain(liar2).chunks_vectored+advance",
    "liar.reader().read",
    "liar.reader().fill_buf+consume",
    "liar.reader().read_to_end",
    "liar.into_iter().collect",
    "Take<Chain<liar, liar2>>.get_u64 + copy_to_bytes",
    "Bytes::from_owner(lying AsRef) + clone/slice/into_vec",
    "Cursor<lying AsRef> as Buf: get_u32 / copy_to_bytes / advance",
    "BytesMut::extend(lying iter)",
    "BytesMut::from_iter(lying iter)",
    "Bytes::from_iter(lying iter)",
    "BytesMut::extend(lying iter of Bytes)",
    "BytesMut::extend(lying iter of &u8)",
    "serde: Bytes::deserialize(visit_seq with lying size_hint)",
    "serde: BytesMut::deserialize(visit_seq with lying size_hint)",
    "Box<liar> / &mut liar forwarding: get_u32 + copy_to_bytes",
    "(&mut [MaybeUninit<u8>]).put(liar)",
    "BytesMut(shared, sibling behind).put(liar)",
    "liar.copy_to_bytes via Take<&mut liar> (default copy_to_bytes path)",
];

pub struct FOut {
    pub viol: Option<(String, String)>,
    pub panicked: bool,
    pub lies: usize,
    pub after: usize,
    pub calls: usize,
}

const G: usize = 64;

/// destination of an `extend`: every representation a `BytesMut` can be in (the second value keeps a sibling alive)
fn iter_dest(k: usize) -> (BytesMut, Option<BytesMut>) {
    match k % 7 {
        0 => (BytesMut::new(), None),
        1 => (BytesMut::with_capacity(k % 16), None),
        2 => {
            // vector representation with contents and a little spare room
            let mut b = BytesMut::with_capacity(k + 3);
            b.resize(k, 0x21);
            (b, None)
        }
        3 => {
            // vector representation at an offset
            let mut b = BytesMut::with_capacity(k + 9);
            b.resize(k + 4, 0x21);
            b.advance(3);
            (b, None)
        }
        4 => {
            // shared representation, sole handle
            let mut b = BytesMut::with_capacity(k + 9);
            b.resize(k + 4, 0x21);
            drop(b.split_to(2));
            (b, None)
        }
        5 => {
            // shared representation, a sibling lives right behind the view
            let mut b = BytesMut::with_capacity(k + 12);
            b.resize(k + 8, 0x21);
            let tail = b.split_off(k + 4);
            (b, Some(tail))
        }
        _ => {
            // exactly full vector
            let b = BytesMut::from(&vec![0x21u8; k + 1][..]);
            (b, None)
        }
    }
}

fn run_once(c: &FCase) -> FOut {
    oalloc::set_parity((c.param & 1) as usize);
    oalloc::set_quarantine(true);
    oalloc::case_begin();
    let script = Rc::new(c.script.clone());
    let log = Rc::new(LieLog::default());
    let n = (c.n % 48) as usize;
    let k = (c.param as usize / 2) % 40;
    let liar = |vectored: bool| LyingBuf::new(n, script.clone(), log.clone(), vectored);
    // fixed target with guards
    let mut arena = vec![0xA5u8; G + 32 + G];
    for x in &mut arena[G..G + 32] {
        *x = 0xC3;
    }
    let fixed_ptr = unsafe { arena.as_mut_ptr().add(G) };
    let mut sibling_check: Option<BytesMut> = None;
    let range_viol = Cell::new(false);
    // entries of the IoSlice array BEHIND the dst slice handed to chunks_vectored must stay what they were
    let dst_viol = Cell::new(false);
    static SENT: [u8; 3] = [0xE1, 0xE3, 0xE5];
    let sent_ok = |s: &std::io::IoSlice| s.as_ptr() == SENT.as_ptr() && s.len() == 3;
    // taint oracle for out-of-bounds READS: every byte the liars ever hand out is an odd value <= 0x8f (or comes from the
    // honest helper slices); a result byte such as the allocator's guard (0xa5) or poison (0xdd) value proves that the
    // crate read memory no slice covered
    let observed: std::cell::RefCell<Vec<u8>> = std::cell::RefCell::new(Vec::with_capacity(256)); // allocated outside the bracket
    let obs = |b: &[u8]| {
        let mut o = observed.borrow_mut();
        let room = o.capacity() - o.len();
        o.extend_from_slice(&b[..b.len().min(room)]);
    };
    let consumer = c.consumer as usize % CONSUMERS.len();
    let (r, _) = call(|| {
        let fixed: &mut [u8] = unsafe { std::slice::from_raw_parts_mut(fixed_ptr, 32) };
        match consumer {
            0 => {
                let mut v: Vec<u8> = Vec::with_capacity(k);
                v.put(liar(false));
                drop(v);
            }
            1 => {
                let mut b = BytesMut::with_capacity(k);
                b.put(liar(false));
                let _ = b.len();
            }
            2 => {
                let mut t: &mut [u8] = fixed;
                t.put(liar(false));
            }
            3 => {
                let (a, _) = fixed.split_at_mut(k.min(32));
                let mut ch = a.chain_mut(Vec::new());
                ch.put(liar(false));
            }
            4 => {
                let mut l = Vec::new().limit(k);
                l.put(liar(false));
            }
            5 => obs(&[liar(false).get_u8()]),
            6 => obs(&liar(false).get_u16().to_le_bytes()),
            7 => obs(&liar(false).get_u32_le().to_le_bytes()),
            8 => obs(&liar(false).get_u64().to_le_bytes()),
            9 => obs(&liar(false).get_u128().to_le_bytes()),
            10 => obs(&liar(false).get_uint(k % 9).to_le_bytes()),
            11 => obs(&liar(false).get_int_le(k % 9).to_le_bytes()),
            12 => obs(&liar(false).try_get_u32().unwrap_or(0).to_le_bytes()),
            13 => obs(&liar(false).try_get_u128_le().unwrap_or(0).to_le_bytes()),
            14 => obs(&liar(false).try_get_int(k % 9).unwrap_or(0).to_le_bytes()),
            15 => {
                let mut l = liar(false);
                l.copy_to_slice(&mut fixed[..k.min(32)]);
            }
            16 => {
                let mut l = liar(false);
                let _ = l.try_copy_to_slice(&mut fixed[..k.min(32)]);
            }
            17 => obs(&liar(false).copy_to_bytes(k)),
            #[cfg(feature = "bstd")]
            18 => {
                let l = liar(false);
                let mut dst = [std::io::IoSlice::new(&SENT); 12];
                let want = k % 5;
                let c = std::panic::catch_unwind(std::panic::AssertUnwindSafe(|| l.chunks_vectored(&mut dst[..want])));
                if dst[want..].iter().any(|s| !sent_ok(s)) {
                    dst_viol.set(true);
                }
                let c = match c {
                    Ok(c) => c,
                    Err(e) => std::panic::resume_unwind(e),
                };
                let mut total = 0usize;
                for s in dst.iter().take(c.min(want)) {
                    total += s.iter().map(|&b| b as usize).sum::<usize>();
                }
                let _ = total;
            }
            19 => obs(&liar(false).take(k).copy_to_bytes(k / 2)),
            #[cfg(feature = "bstd")]
            20 => {
                let t = liar(true).take(k);
                let mut dst = [std::io::IoSlice::new(&SENT); 40];
                let want = [0usize, 1, 2, 3, 16, 17, 20][n % 7];
                let c = std::panic::catch_unwind(std::panic::AssertUnwindSafe(|| t.chunks_vectored(&mut dst[..want])));
                if dst[want..].iter().any(|s| !sent_ok(s)) {
                    dst_viol.set(true);
                }
                let c = match c {
                    Ok(c) => c,
                    Err(e) => std::panic::resume_unwind(e),
                };
                let mut total = 0usize;
                for s in dst.iter().take(c.min(want)) {
                    total += s.iter().map(|&b| b as usize).sum::<usize>();
                }
                let _ = total;
            }
            21 => obs(&liar(false).take(k).get_u32().to_le_bytes()),
            22 => {
                let mut t = liar(false).take(k);
                t.advance(k / 2);
                let _ = t.remaining();
                let _ = t.chunk().len();
            }
            23 => drop(liar(false).chain(&b"honest-tail"[..]).copy_to_bytes(k)),
            24 => drop((&b"hd"[..]).chain(liar(false)).copy_to_bytes(k)),
            #[cfg(feature = "bstd")]
            25 => {
                let mut ch = liar(true).chain(liar(false));
                let mut dst = [std::io::IoSlice::new(&SENT); 28];
                let want = k % 9;
                let c = std::panic::catch_unwind(std::panic::AssertUnwindSafe(|| ch.chunks_vectored(&mut dst[..want])));
                if dst[want..].iter().any(|s| !sent_ok(s)) {
                    dst_viol.set(true);
                }
                let c = match c {
                    Ok(c) => c,
                    Err(e) => std::panic::resume_unwind(e),
                };
                let _ = dst.iter().take(c.min(want)).map(|s| s.len()).sum::<usize>();
                ch.advance(k);
                let _ = ch.chunk().len();
            }
            #[cfg(feature = "bstd")]
            26 => {
                use std::io::Read;
                let mut rd = liar(false).reader();
                let _ = rd.read(&mut fixed[..k.min(32)]);
                let _ = rd.read(&mut fixed[..k.min(32)]);
            }
            #[cfg(feature = "bstd")]
            27 => {
                use std::io::BufRead;
                let mut rd = liar(false).reader();
                let l = rd.fill_buf().map(|b| b.len()).unwrap_or(0);
                rd.consume(l.min(k));
                let _ = rd.fill_buf().map(|b| b.iter().map(|&x| x as usize).sum::<usize>());
            }
            #[cfg(feature = "bstd")]
            28 => {
                use std::io::Read;
                let mut rd = liar(false).reader();
                let mut out = Vec::new();
                let _ = rd.read_to_end(&mut out);
            }
            29 => {
                let it = bytes::buf::IntoIter::new(liar(false));
                let v: Vec<u8> = it.take(500).collect();
                drop(v);
            }
            30 => {
                let mut t = liar(false).chain(liar(true)).take(k + 8);
                let _ = t.get_u64();
                drop(t.copy_to_bytes(k / 2));
            }
            31 => {
                let owner = LyingAsRef { a: vec![7u8; n + 4], b: vec![9u8; n / 2 + 1], script: script.clone(), log: log.clone() };
                let ra = (owner.a.as_ptr() as usize, owner.a.len());
                let rb = (owner.b.as_ptr() as usize, owner.b.len());
                let b = Bytes::from_owner(owner);
                // the view must lie inside one of the slices the owner ever handed out
                let (p, l) = (b.as_ptr() as usize, b.len());
                let inside = |r: (usize, usize)| p >= r.0 && p + l <= r.0 + r.1;
                if l > 0 && !inside(ra) && !inside(rb) {
                    range_viol.set(true);
                    return;
                }
                let c2 = b.clone();
                let s = b.slice(..b.len() / 2);
                let v: Vec<u8> = c2.into();
                let m = BytesMut::from(s);
                drop((b, v, m));
            }
            #[cfg(feature = "bstd")]
            32 => {
                let owner = LyingAsRef { a: vec![7u8; n + 4], b: vec![9u8; n / 2 + 1], script: script.clone(), log: log.clone() };
                let ra = (owner.a.as_ptr() as usize, owner.a.len());
                let rb = (owner.b.as_ptr() as usize, owner.b.len());
                let mut cur = std::io::Cursor::new(owner);
                cur.set_position((k % 8) as u64);
                let _ = cur.remaining();
                {
                    // every chunk must lie inside one of the slices the owner ever handed out
                    let ch = cur.chunk();
                    let (p, l) = (ch.as_ptr() as usize, ch.len());
                    let inside = |r: (usize, usize)| p >= r.0 && p.checked_add(l).map_or(false, |e| e <= r.0 + r.1);
                    if l > 0 && !inside(ra) && !inside(rb) {
                        range_viol.set(true);
                        return;
                    }
                }
                if cur.remaining() >= 4 {
                    obs(&cur.get_u32().to_le_bytes());
                }
                let r = cur.remaining();
                obs(&cur.copy_to_bytes(r.min(k)));
                let r = cur.remaining();
                cur.advance(r / 2);
            }
            33 => {
                // the iterator yields up to 8 * n bytes, so that the destination has to grow (several times) while the
                // iterator is still being driven - and possibly panics in between
                let n_it = if k % 3 == 0 { n } else { n * 8 };
                let pa = iter_panic_at(&c.script, n_it);
                let (mut b, keep) = iter_dest(k);
                b.extend(LyingIter { n: n_it, i: 0, hint: c.script.first().copied().unwrap_or(0), panic_at: pa, log: log.clone() });
                let _ = b.len();
                drop(keep);
            }
            34 => drop(BytesMut::from_iter(LyingIter { n, i: 0, hint: c.script.first().copied().unwrap_or(0), panic_at: iter_panic_at(&c.script, n), log: log.clone() })),
            35 => drop(Bytes::from_iter(LyingIter { n, i: 0, hint: c.script.first().copied().unwrap_or(0), panic_at: iter_panic_at(&c.script, n), log: log.clone() })),
            36 => {
                let np = n % 5;
                let parts: Vec<Bytes> = (0..np).map(|i| Bytes::from(vec![i as u8; i * 9 + 1])).collect();
                let (mut b, keep) = iter_dest(k);
                b.extend(BytesIter { parts, hint: c.script.first().copied().unwrap_or(0), panic_at: iter_panic_at(&c.script, np), log: log.clone() });
                drop(keep);
            }
            37 => {
                let src: Vec<u8> = (0..(n * if k % 3 == 0 { 1 } else { 8 })).map(|i| i as u8).collect();
                struct RefIter<'a> {
                    it: std::slice::Iter<'a, u8>,
                    hint: u8,
                    panic_at: Option<usize>,
                    log: Rc<LieLog>,
                }
                impl<'a> Iterator for RefIter<'a> {
                    type Item = &'a u8;
                    fn next(&mut self) -> Option<&'a u8> {
                        self.log.tick(false);
                        scripted_iter_panic(&self.log, self.panic_at, self.it.len());
                        self.it.next()
                    }
                    fn size_hint(&self) -> (usize, Option<usize>) {
                        self.log.tick(self.hint % 4 != 0);
                        match self.hint % 4 {
                            1 => (0, None),
                            2 => (self.it.len() + 77, None),
                            3 => (usize::MAX, None),
                            _ => self.it.size_hint(),
                        }
                    }
                }
                let (mut b, keep) = iter_dest(k);
                b.extend(RefIter { it: src.iter(), hint: c.script.first().copied().unwrap_or(0), panic_at: iter_panic_at(&c.script, n), log: log.clone() });
                drop(keep);
            }
            #[cfg(feature = "bserde")]
            38 | 39 => {
                use serde::de::value::Error as DeError;
                use serde::de::{DeserializeSeed, Deserializer, IntoDeserializer, SeqAccess, Visitor};
                use serde::Deserialize;
                struct S {
                    n: usize,
                    i: usize,
                    hint: u8,
                    fail_at: Option<usize>,
                    log: Rc<LieLog>,
                }
                impl<'de> SeqAccess<'de> for S {
                    type Error = DeError;
                    fn next_element_seed<T: DeserializeSeed<'de>>(&mut self, seed: T) -> Result<Option<T::Value>, DeError> {
                        self.log.tick(false);
                        if self.fail_at == Some(self.i) {
                            if self.hint & 0x80 != 0 {
                                scripted_iter_panic(&self.log, self.fail_at, self.i);
                            }
                            return Err(serde::de::Error::custom("scripted failure"));
                        }
                        if self.i >= self.n {
                            return Ok(None);
                        }
                        self.i += 1;
                        seed.deserialize((self.i as u8).into_deserializer()).map(Some)
                    }
                    fn size_hint(&self) -> Option<usize> {
                        self.log.tick(self.hint % 6 != 0);
                        match self.hint % 6 {
                            1 => Some(0),
                            2 => Some(usize::MAX),
                            3 => Some(self.n + 1000),
                            4 => Some(self.n / 2),
                            5 => None,
                            _ => Some(self.n - self.i),
                        }
                    }
                }
                struct D(S);
                impl<'de> Deserializer<'de> for D {
                    type Error = DeError;
                    fn deserialize_any<V: Visitor<'de>>(self, v: V) -> Result<V::Value, DeError> {
                        v.visit_seq(self.0)
                    }
                    serde::forward_to_deserialize_any! {
                        bool i8 i16 i32 i64 i128 u8 u16 u32 u64 u128 f32 f64 char str string bytes byte_buf option unit unit_struct
                        newtype_struct seq tuple tuple_struct map struct enum identifier ignored_any
                    }
                }
                let s = S { n: n * 200, i: 0, hint: c.script.first().copied().unwrap_or(0), fail_at: iter_panic_at(&c.script, n * 200), log: log.clone() };
                if consumer == 38 {
                    drop(Bytes::deserialize(D(s)));
                } else {
                    drop(BytesMut::deserialize(D(s)));
                }
            }
            40 => {
                let mut bx: Box<LyingBuf> = Box::new(liar(false));
                let _ = bx.remaining();
                if k % 2 == 0 {
                    let _ = bx.get_u32();
                    drop(bx.copy_to_bytes(k / 2));
                } else {
                    let mut r: &mut LyingBuf = &mut *bx;
                    let _ = Buf::get_u32(&mut r);
                    drop(Buf::copy_to_bytes(&mut r, k / 2));
                }
            }
            41 => {
                let un: &mut [std::mem::MaybeUninit<u8>] = unsafe { std::slice::from_raw_parts_mut(fixed_ptr as *mut std::mem::MaybeUninit<u8>, 32) };
                let mut t = un;
                t.put(liar(false));
            }
            42 => {
                let mut b = BytesMut::with_capacity(k + 8);
                b.resize(k, 0);
                b.extend_from_slice(b"SIBLING!");
                let tail = b.split_off(k);
                b.clear();
                b.put(liar(false));
                sibling_check = Some(tail);
            }
            43 => {
                let mut l = liar(false);
                let mut t = (&mut l).take(k);
                drop(t.copy_to_bytes(k / 2));
                let _ = t.remaining();
            }
            _ => {}
        }
    });
    let panicked = r.is_err();
    let mut viol: Option<(String, String)> = None;
    if let Some(&b) = observed.borrow().iter().find(|&&b| b > 0x8f && b != 0xff) {
        viol = Some(("out-of-bounds-read(tainted result)".into(), format!("a returned value contains the byte {:#04x}, which no slice handed out by the user impl contains (allocator guard = 0xa5, poison = 0xdd): the crate read outside the slice it was given", b)));
    }
    if dst_viol.get() {
        viol = Some(("out-of-bounds-write-behind-dst".into(), "chunks_vectored modified IoSlice entries behind the end of the dst slice it was given".into()));
    }
    if range_viol.get() {
        viol = Some(("view-outside-owner-memory".into(), "a view / chunk derived from a user AsRef is not inside any slice that impl handed out (pointer of one as_ref call combined with the length of another)".into()));
    }
    // fixed target guards
    if arena[..G].iter().any(|&x| x != 0xA5) || arena[G + 32..].iter().any(|&x| x != 0xA5) {
        viol = Some(("out-of-bounds-write-into-fixed-target".into(), "bytes outside the 32-byte target slice were modified".into()));
    }
    if let Some(t) = sibling_check.take() {
        if &t[..] != b"SIBLING!" {
            viol = Some(("write-into-sibling-region".into(), "a sibling BytesMut's bytes were overwritten".into()));
        }
        let _ = call(move || drop(t));
    }
    drop(arena);
    let end = oalloc::case_end();
    let mut av = Vec::new();
    oalloc::take_violations(&mut av);
    if let Some(a) = av.first() {
        viol = Some((format!("allocator:{:?}", a.kind), format!("block ptr={:#x} size={} align={} / freed with size={} align={}", a.ptr, a.size, a.align, a.got_size, a.got_align)));
    }
    if viol.is_none() {
        let crate_leaks: Vec<_> = end.leaked.iter().filter(|b| b.by_crate).collect();
        if !crate_leaks.is_empty() {
            viol = Some(("leak".into(), format!("{} block(s) allocated by the crate are still live after unwinding and dropping everything (first: size {} align {})", crate_leaks.len(), crate_leaks[0].size, crate_leaks[0].align)));
        }
    }
    FOut { viol, panicked, lies: log.lies.get(), after: log.after_lie.get(), calls: log.calls.get() }
}

/// `--prop C02`: the same cases, reported for C02 ("no sequence of safe API calls makes the crate read or write outside a live
/// allocation ... free memory twice ... access memory after it was freed" - calling a safe trait impl that lies is such a sequence).
/// Only the memory-safety oracles count there; a leak is C17's (and C03's) business, not C02's.
///
/// `--prop C04`: only consumers whose target is a `BytesMut`, and only the oracles that say its region left its allocation or
/// reached into a sibling's region (C04 "regions ... pairwise disjoint ... contained in a single live allocation, so a write through
/// one BytesMut is never visible through another handle").
static REPORT_MODE: std::sync::atomic::AtomicU8 = std::sync::atomic::AtomicU8::new(0); // 0 = C17, 1 = C02, 2 = C04

pub fn run_fcase(c: &FCase) -> FOut {
    let mut o = run_once(c);
    if matches!(&o.viol, Some((k, _)) if k == "leak") {
        o = run_once(c);
    }
    let keep = match (REPORT_MODE.load(std::sync::atomic::Ordering::Relaxed), &o.viol) {
        (_, None) | (0, _) => true,
        (1, Some((k, _))) => k != "leak",
        (_, Some((k, _))) => CONSUMERS[c.consumer as usize % CONSUMERS.len()].contains("BytesMut") && (k == "write-into-sibling-region" || k.starts_with("allocator:RedZone")),
    };
    if !keep {
        o.viol = None;
    }
    o
}

fn script_strategy() -> BoxedStrategy<Vec<u8>> {
    proptest::collection::vec(prop_oneof![3 => Just(0u8), 2 => 1u8..8], 0..16).boxed()
}
fn fcase_strategy() -> BoxedStrategy<FCase> {
    (0u16..CONSUMERS.len() as u16, prop_oneof![Just(0u16), 1u16..10, 10u16..48], 0u16..200, script_strategy()).prop_map(|(consumer, n, param, script)| FCase { consumer, n, param, script }).boxed()
}

/// all scripts with <= 3 faults at call positions < 6, fault codes 1..=7
fn enumerate_scripts() -> Vec<Vec<u8>> {
    let mut out = vec![vec![]];
    for a in 0..6 {
        for ca in 1..8u8 {
            let mut s = vec![0u8; a + 1];
            s[a] = ca;
            out.push(s.clone());
            for b in a + 1..6 {
                for cb in 1..8u8 {
                    let mut s2 = s.clone();
                    s2.resize(b + 1, 0);
                    s2[b] = cb;
                    out.push(s2.clone());
                    for c in b + 1..6 {
                        for cc in 1..8u8 {
                            let mut s3 = s2.clone();
                            s3.resize(c + 1, 0);
                            s3[c] = cc;
                            out.push(s3);
                        }
                    }
                }
            }
        }
    }
    out
}

pub fn main_fault(args: &Args) -> i32 {
    util::install_crash_reporter();
    util::silence_panics();
    let seed = args.u64("seed", 1);
    let worker = args.u64("worker", 0);
    let workers = args.u64("workers", 1).max(1);
    let cases = args.u64("cases", 10000);
    let mut viols: Vec<Value> = Vec::new();
    let prop: &'static str = match args.kv.get("prop").map(|s| s.as_str()) {
        Some("C02") => "C02",
        Some("C04") => "C04",
        _ => "C17",
    };
    REPORT_MODE.store(match prop { "C02" => 1, "C04" => 2, _ => 0 }, std::sync::atomic::Ordering::Relaxed);
    let record = |c: &FCase, o: &FOut, how: &str, viols: &mut Vec<Value>| {
        let (k, d) = o.viol.clone().unwrap();
        viols.push(json!({"property": prop, "oracle": k, "detail": d, "op": CONSUMERS[c.consumer as usize % CONSUMERS.len()], "found_by": how, "profile": util::profile_name(), "replay": c.to_json(),
            "trace": [format!("consumer: {}", CONSUMERS[c.consumer as usize % CONSUMERS.len()]), format!("liar data {} bytes, param {}, script {:?}", c.n % 48, c.param, c.script), format!("calls {} lies told {} calls after first lie {} panicked {}", o.calls, o.lies, o.after, o.panicked)]}));
    };
    if let Some(path) = args.kv.get("replay") {
        let v: Value = serde_json::from_str(&std::fs::read_to_string(path).unwrap_or_default()).unwrap_or(Value::Null);
        let Some(c) = FCase::from_json(&v) else { return 2 };
        util::set_current_case(&c.to_json().to_string());
        let o = run_fcase(&c);
        if o.viol.is_some() {
            record(&c, &o, "replay", &mut viols);
        }
        println!("{}", json!({"evaluations": 1, "violations": viols, "trace": [format!("consumer {} calls {} lies {} panicked {}", CONSUMERS[c.consumer as usize % CONSUMERS.len()], o.calls, o.lies, o.panicked)]}));
        return if viols.is_empty() { 0 } else { 1 };
    }
    let mut evals = 0u64;
    let mut nontriv: HashSet<u64> = HashSet::new();
    let mut per_consumer = vec![[0u64; 4]; CONSUMERS.len()];
    let mut samples: Vec<Value> = Vec::new();
    let mut exhaustive = Vec::new();
    let mut failed = false;
    // ---- exhaustive scripts
    if !args.has("no-enum") {
        let scripts = enumerate_scripts();
        let mut idx = 0u64;
        let mut done = 0u64;
        'outer: for (ci, _) in CONSUMERS.iter().enumerate() {
            for &n in &[0u16, 3, 9, 33] {
                for (si, s) in scripts.iter().enumerate() {
                    idx += 1;
                    if idx % workers != worker {
                        continue;
                    }
                    // iterator / serde consumers only look at the first script byte
                    if (33..=39).contains(&ci) && s.len() > 1 {
                        continue;
                    }
                    let c = FCase { consumer: ci as u16, n, param: ((si * 7 + ci) % 200) as u16, script: s.clone() };
                    util::set_current_case(&c.to_json().to_string());
                    let o = run_fcase(&c);
                    evals += 1;
                    done += 1;
                    per_consumer[ci][0] += 1;
                    per_consumer[ci][1] += (o.lies > 0) as u64;
                    per_consumer[ci][2] += o.panicked as u64;
                    if o.lies > 0 && (o.after > 0 || o.panicked || matches!(ci, 18 | 20 | 25)) && o.viol.is_none() {
                        per_consumer[ci][3] += 1;
                        if nontriv.insert(fnv64(c.to_json().to_string().as_bytes())) && samples.len() < 4 && nontriv.len() % 997 == 1 {
                            samples.push(json!({"case": c.to_json(), "consumer": CONSUMERS[ci], "calls": o.calls, "lies_consumed": o.lies, "calls_after_first_lie": o.after, "panicked": o.panicked}));
                        }
                    }
                    if o.viol.is_some() {
                        record(&c, &o, "exhaustive fault scripts", &mut viols);
                        failed = true;
                        break 'outer;
                    }
                }
            }
        }
        exhaustive.push(json!({"space": format!("{} consumers x liar sizes {{0,3,9,33}} x all {} scripts with <=3 faults (codes 1..7) at call positions <6", CONSUMERS.len(), scripts.len()),
            "histories_this_worker": done, "histories_total": (CONSUMERS.len() * 4 * scripts.len()) as u64, "complete": !failed}));
    }
    // ---- random scripts
    if cases > 0 && !failed {
        let mut s = [0u8; 32];
        s[..8].copy_from_slice(&seed.to_le_bytes());
        s[8..16].copy_from_slice(&worker.to_le_bytes());
        s[16] = 17;
        let mut runner = TestRunner::new_with_rng(
            Config { cases: cases as u32, failure_persistence: None, max_shrink_iters: 5000, rng_seed: RngSeed::Fixed(seed), ..Config::default() },
            TestRng::from_seed(RngAlgorithm::ChaCha, &s),
        );
        struct Acc {
            failed: bool,
            evals: u64,
            nontriv: HashSet<u64>,
            per: Vec<[u64; 4]>,
        }
        let acc = std::cell::RefCell::new(Acc { failed: false, evals: 0, nontriv: HashSet::new(), per: vec![[0u64; 4]; CONSUMERS.len()] });
        let res = runner.run(&fcase_strategy(), |c| {
            let mut a = acc.borrow_mut();
            util::set_current_case(&c.to_json().to_string());
            let o = run_fcase(&c);
            if !a.failed {
                let ci = c.consumer as usize % CONSUMERS.len();
                a.evals += 1;
                a.per[ci][0] += 1;
                a.per[ci][1] += (o.lies > 0) as u64;
                a.per[ci][2] += o.panicked as u64;
                if o.lies > 0 && (o.after > 0 || o.panicked || matches!(ci, 18 | 20 | 25)) && o.viol.is_none() {
                    a.per[ci][3] += 1;
                    a.nontriv.insert(fnv64(c.to_json().to_string().as_bytes()));
                }
            }
            if o.viol.is_some() {
                a.failed = true;
                Err(TestCaseError::fail("c17"))
            } else {
                Ok(())
            }
        });
        let a = acc.into_inner();
        evals += a.evals;
        nontriv.extend(a.nontriv);
        for (i, p) in a.per.iter().enumerate() {
            for j in 0..4 {
                per_consumer[i][j] += p[j];
            }
        }
        if let Err(TestError::Fail(_, c)) = res {
            let o = run_fcase(&c);
            if o.viol.is_some() {
                record(&c, &o, "random fault script, shrunk by proptest", &mut viols);
            }
        }
    }
    if let Some(p) = args.kv.get("hashes-out") {
        util::write_hashes(p, &nontriv);
    }
    let mut pc = serde_json::Map::new();
    for (i, n) in CONSUMERS.iter().enumerate() {
        pc.insert(n.to_string(), json!({"cases": per_consumer[i][0], "a lie was consumed": per_consumer[i][1], "panicked": per_consumer[i][2], "non-trivial": per_consumer[i][3]}));
    }
    let out = json!({
        "engine": "fault", "property": prop, "profile": util::profile_name(), "seed": seed, "worker": worker,
        "evaluations": evals, "nontrivial_distinct_this_worker": nontriv.len(), "exhaustive": exhaustive,
        "histogram": {"per_consumer": pc}, "samples": samples, "violations": viols,
    });
    println!("{}", out);
    if viols.is_empty() {
        0
    } else {
        1
    }
}
