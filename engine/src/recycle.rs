//! Engine R (C18): long periodic / seeded-random recycle histories of one BytesMut; allocator
//! counters (peak live bytes, byte-buffer allocations) must be bounded independently of the number
//! of rounds.

use crate::hist::call;
use crate::oalloc;
use crate::util::{self, fnv64, Args};
use bytes::{Buf, BufMut, Bytes, BytesMut};
use proptest::prelude::*;
use proptest::test_runner::{Config, RngAlgorithm, RngSeed, TestCaseError, TestError, TestRng, TestRunner};
use serde_json::{json, Value};
use std::collections::{HashSet, VecDeque};

#[derive(Clone, Debug, PartialEq)]
pub struct Round {
    pub reserve: u32, // 0 = none, else explicit reserve(n)
    pub app_m: u8,    // append method
    pub m: u32,       // bytes appended
    pub cons_m: u8,   // consume method
    pub frac: u8,     // fraction (x/16) of the data consumed by split_to / advance / split_off
    pub fate: u8,
}
#[derive(Clone, Debug, PartialEq)]
pub struct Pattern {
    pub init_cap: u32,
    pub rounds: Vec<Round>,
    pub k: u8,
    pub lmax: u32,
    pub relabel_every: u8, // 0 = never; else every n-th round buf = BytesMut::from(buf.freeze())
}
impl Pattern {
    pub fn to_json(&self, n: u64) -> Value {
        json!({"engine": "recycle", "n": n, "init_cap": self.init_cap, "k": self.k, "lmax": self.lmax, "relabel_every": self.relabel_every,
            "rounds": self.rounds.iter().map(|r| json!([r.reserve, r.app_m, r.m, r.cons_m, r.frac, r.fate])).collect::<Vec<_>>()})
    }
    pub fn from_json(v: &Value) -> Option<(Pattern, u64)> {
        let g = |k: &str| v.get(k).and_then(|x| x.as_u64()).unwrap_or(0);
        let rounds = v
            .get("rounds")?
            .as_array()?
            .iter()
            .map(|r| {
                let q = |i: usize| r[i].as_u64().unwrap_or(0);
                Round { reserve: q(0) as u32, app_m: q(1) as u8, m: q(2) as u32, cons_m: q(3) as u8, frac: q(4) as u8, fate: q(5) as u8 }
            })
            .collect();
        Some((Pattern { init_cap: g("init_cap") as u32, rounds, k: g("k") as u8, lmax: g("lmax") as u32, relabel_every: g("relabel_every") as u8 }, g("n").max(1)))
    }
    /// working set: what one round can legitimately need at once
    pub fn w(&self) -> usize {
        let mx = self.rounds.iter().map(|r| r.m as usize + if r.reserve == u32::MAX { 0 } else { r.reserve as usize }).max().unwrap_or(0);
        (self.init_cap as usize).max(self.lmax as usize + mx).max(64)
    }
}

pub const APP_NAMES: [&str; 12] = ["put_slice", "extend_from_slice", "put_bytes", "resize", "extend(iter)", "reserve+chunk_mut+advance_mut", "extend(iter with size_hint lower bound 0)", "extend(iter of &u8)", "put(&[u8] as Buf)", "put(chain of two slices)", "extend(one static Bytes)", "extend(one shared Bytes)"];
const NAPP: u8 = 12;
static STATIC_SRC: [u8; 1 << 16] = [0x6b; 1 << 16];
pub const CONS_NAMES: [&str; 8] = ["split()", "split_to(f)", "advance(f)", "clear()", "split_off(f) keeping the tail", "Buf::copy_to_bytes(f)", "Buf::copy_to_bytes(remaining())", "(&mut buf).take(f).copy_to_bytes(f)"];
pub const FATE_NAMES: [&str; 8] = ["drop", "freeze, drop", "keep k rounds", "freeze, clone, keep clone k rounds", "unsplit back, then advance", "Vec::from(part), drop", "Vec::from(part.freeze()), drop", "the emptied remainder takes the part back: buf.unsplit(part); buf.clear()"];

enum Part {
    M(BytesMut),
    B(Bytes),
}

#[derive(Default, Clone, Debug)]
pub struct RunRes {
    pub viol: Option<(String, String)>,
    pub peak_at: Vec<(u64, u64)>,     // (rounds, peak live bytes so far)
    pub late_byte_allocs: u64,        // byte-buffer allocations in rounds (N/10, N]
    pub total_byte_allocs: u64,
    pub bound_peak: u64,
    pub bound_allocs: u64,
    pub w: u64,
    pub ratio: f64,                   // (peak - 4096) / ((k+2) * W)
    pub saw_leftover: bool,
    pub saw_reclaim: bool,
    pub saw_shift: bool,
    pub saw_alloc_while_shared: bool,
    pub sole_claims: u64,
    pub shapes: usize,
    pub rounds_run: u64,
}

pub fn run_pattern(p: &Pattern, n: u64) -> RunRes {
    let mut res = RunRes::default();
    let w = p.w();
    let k = p.k as usize % 5;
    res.w = w as u64;
    res.bound_peak = ((k + 2) * 8 * w + 4096) as u64;
    res.bound_allocs = (2.0 * ((8 * w) as f64).log2()).ceil() as u64 + 8;
    let mut shapes = HashSet::new();
    for r in &p.rounds {
        shapes.insert((r.app_m % NAPP, r.cons_m % 8, r.fate % 8, r.reserve > 0));
    }
    res.shapes = shapes.len();
    oalloc::set_quarantine(false);
    oalloc::set_parity(0);
    oalloc::case_begin();
    let src: Vec<u8> = (0..(1usize << 16)).map(|i| (i % 251) as u8).collect();
    let (b0, _) = call(|| BytesMut::with_capacity(p.init_cap as usize));
    let mut buf = match b0 {
        Ok(b) => b,
        Err(()) => {
            res.viol = Some(("setup-panicked".into(), "with_capacity".into()));
            oalloc::case_end();
            return res;
        }
    };
    let mut kept: VecDeque<(u64, Part)> = VecDeque::new();
    let c_start = oalloc::counters();
    let mut late_start_allocs: Option<u64> = None;
    // byte-buffer allocations made by operations on the recycling buffer itself (reserve / append / consume /
    // relabel); what the caller does with a split-off part (e.g. copying it into a Vec) is not the buffer's doing
    let mut buf_allocs: u64 = 0;
    let marks = [n / 10, n];
    let mut i: u64 = 0;
    let abort_at = res.bound_peak.saturating_mul(64);
    let fail = |res: &mut RunRes, o: &str, d: String| {
        if res.viol.is_none() {
            res.viol = Some((o.to_string(), d));
        }
    };
    while i < n {
        let r = &p.rounds[(i % p.rounds.len() as u64) as usize];
        if i == n / 10 {
            late_start_allocs = Some(buf_allocs);
        }
        // retire kept parts whose time is up (before the refill)
        while kept.front().map_or(false, |(t, _)| *t <= i) {
            let (_, part) = kept.pop_front().unwrap();
            let _ = call(move || drop(part));
        }
        // sole-owner facts before any reserve of this round
        let m = (r.m as usize).min(1 << 16);
        // reserve: 0 = exactly what is appended, u32::MAX = no explicit reserve at all (the append has to make room itself)
        let req = if r.reserve == u32::MAX { 0 } else if r.reserve > 0 { r.reserve as usize } else { m };
        let sole_block = {
            let pa = buf.as_ptr() as usize;
            match oalloc::block_of(pa) {
                Some(b) if buf.is_empty() && b.align == 1 => {
                    let lo = b.ptr;
                    let hi = b.ptr + b.size;
                    let shared = kept.iter().any(|(_, q)| {
                        let a = match q {
                            Part::M(x) => x.as_ptr() as usize,
                            Part::B(x) => x.as_ptr() as usize,
                        };
                        a >= lo && a <= hi
                    });
                    if shared {
                        None
                    } else {
                        Some(b.size)
                    }
                }
                _ => None,
            }
        };
        let spare = buf.capacity() - buf.len();
        let (rr, d) = call(|| buf.reserve(req));
        buf_allocs += d.byte_allocs;
        if rr.is_err() {
            fail(&mut res, "reserve-panicked", format!("round {}: reserve({})", i, req));
            break;
        }
        if buf.capacity() - buf.len() < req {
            fail(&mut res, "reserve-promise", format!("round {}: reserve({}) left capacity {} len {}", i, req, buf.capacity(), buf.len()));
            break;
        }
        if let Some(sz) = sole_block {
            if req <= sz {
                res.sole_claims += 1;
                if d.allocs > 0 {
                    fail(&mut res, "sole-owner-reserve-allocated", format!("round {}: reserve({}) on an empty handle alone on a {}-byte buffer allocated {} block(s)", i, req, sz, d.allocs));
                    break;
                }
            }
        }
        if req > spare {
            if d.byte_allocs == 0 {
                res.saw_reclaim = true;
                if !buf.is_empty() {
                    res.saw_shift = true;
                }
            } else if !kept.is_empty() {
                res.saw_alloc_while_shared = true;
            }
        }
        // append
        let data = &src[..m];
        let (ar, ad) = match r.app_m % NAPP {
            0 => call(|| buf.put_slice(data)),
            1 => call(|| buf.extend_from_slice(data)),
            2 => call(|| buf.put_bytes(0x5a, m)),
            3 => {
                let nl = buf.len() + m;
                call(|| buf.resize(nl, 0x33))
            }
            4 => call(|| buf.extend(data.iter().copied())),
            6 => call(|| buf.extend(data.iter().copied().filter(|_| true))),
            7 => call(|| buf.extend(data.iter())),
            8 => call(|| buf.put(data)),
            9 => call(|| buf.put((&data[..m / 2]).chain(&data[m / 2..]))),
            10 => {
                // Extend<Bytes> with a chunk the buffer cannot take over (static memory)
                let chunk = Bytes::from_static(&STATIC_SRC[..m]);
                call(|| buf.extend(std::iter::once(chunk)))
            }
            11 => {
                // ... and with a chunk that is shared with a handle the caller keeps (made and released outside the measured call)
                let keep = Bytes::copy_from_slice(data);
                let chunk = keep.clone();
                let r = call(|| buf.extend(std::iter::once(chunk)));
                drop(keep);
                r
            }
            _ => call(|| {
                let mut left = data;
                while !left.is_empty() {
                    let ch = buf.chunk_mut();
                    let c = ch.len().min(left.len());
                    ch[..c].copy_from_slice(&left[..c]);
                    unsafe { buf.advance_mut(c) };
                    left = &left[c..];
                }
            }),
        };
        buf_allocs += ad.byte_allocs;
        if ar.is_err() {
            fail(&mut res, "append-panicked", format!("round {}: {} of {} bytes", i, APP_NAMES[(r.app_m % NAPP) as usize], m));
            break;
        }
        // consume
        let len = buf.len();
        let at = (len * (r.frac as usize % 17)) / 16;
        let mut part: Option<BytesMut> = None;
        // a part taken through the Buf trait is already frozen
        let mut part_b: Option<Bytes> = None;
        let (cr, cd) = match r.cons_m % 8 {
            0 => call(|| part = Some(buf.split())),
            1 => call(|| part = Some(buf.split_to(at))),
            2 => call(|| buf.advance(at)),
            3 => call(|| buf.clear()),
            4 => call(|| {
                let tail = buf.split_off(at);
                part = Some(std::mem::replace(&mut buf, tail));
            }),
            5 => call(|| part_b = Some(Buf::copy_to_bytes(&mut buf, at))),
            6 => call(|| part_b = Some(Buf::copy_to_bytes(&mut buf, len))),
            _ => call(|| part_b = Some(Buf::take(&mut buf, at).copy_to_bytes(at))),
        };
        buf_allocs += cd.byte_allocs;
        if cr.is_err() {
            fail(&mut res, "consume-panicked", format!("round {}: {}", i, CONS_NAMES[(r.cons_m % 8) as usize]));
            break;
        }
        // fate of the part
        if let Some(pb) = part_b {
            let due = i + 1 + k as u64;
            match r.fate % 8 {
                5 | 6 => {
                    let _ = call(move || drop(Vec::from(pb)));
                }
                2 if k > 0 => kept.push_back((due, Part::B(pb))),
                3 => {
                    let (c, _) = call(move || {
                        let c = pb.clone();
                        drop(pb);
                        c
                    });
                    if let Ok(c) = c {
                        if k == 0 {
                            let _ = call(move || drop(c));
                        } else {
                            kept.push_back((due, Part::B(c)));
                        }
                    }
                }
                _ => {
                    let _ = call(move || drop(pb));
                }
            }
        }
        if let Some(pt) = part {
            let due = i + 1 + k as u64;
            match r.fate % 8 {
                0 => {
                    let _ = call(move || drop(pt));
                }
                5 => {
                    let _ = call(move || drop(Vec::from(pt)));
                }
                6 => {
                    let _ = call(move || drop(Vec::from(pt.freeze())));
                }
                1 => {
                    let _ = call(move || drop(pt.freeze()));
                }
                2 => {
                    if k == 0 {
                        let _ = call(move || drop(pt));
                    } else {
                        kept.push_back((due, Part::M(pt)));
                    }
                }
                3 => {
                    let (c, _) = call(move || {
                        let f = pt.freeze();
                        let c = f.clone();
                        drop(f);
                        c
                    });
                    if let Ok(c) = c {
                        if k == 0 {
                            let _ = call(move || drop(c));
                        } else {
                            kept.push_back((due, Part::B(c)));
                        }
                    }
                }
                7 if buf.is_empty() => {
                    // the emptied remainder takes the part back (`buf.unsplit(frame)` after `frame = buf.split()`): a handover,
                    // no copy and no allocation; then the frame is consumed in place
                    let (ur, ud) = call(|| {
                        buf.unsplit(pt);
                        buf.clear();
                    });
                    buf_allocs += ud.byte_allocs;
                    if ur.is_err() {
                        fail(&mut res, "unsplit-panicked", format!("round {}", i));
                        break;
                    }
                }
                _ => {
                    // put it back in front (zero-copy merge of adjacent halves), then consume by advance
                    let plen = pt.len();
                    let (ur, _) = call(|| {
                        let mut pt = pt;
                        let rest = std::mem::replace(&mut buf, BytesMut::new());
                        pt.unsplit(rest);
                        buf = pt;
                        buf.advance(plen);
                    });
                    if ur.is_err() {
                        fail(&mut res, "unsplit-panicked", format!("round {}", i));
                        break;
                    }
                }
            }
        }
        // bounded leftover (balanced pattern by construction)
        if buf.len() > p.lmax as usize {
            let extra = buf.len() - p.lmax as usize;
            let _ = call(|| buf.advance(extra));
        }
        if !buf.is_empty() {
            res.saw_leftover = true;
        }
        if p.relabel_every > 0 && i % (p.relabel_every as u64) == p.relabel_every as u64 - 1 {
            let (rr, rd) = call(|| {
                let b = std::mem::replace(&mut buf, BytesMut::new());
                buf = BytesMut::from(b.freeze());
            });
            buf_allocs += rd.byte_allocs;
            if rr.is_err() {
                fail(&mut res, "relabel-panicked", format!("round {}", i));
                break;
            }
        }
        i += 1;
        if marks.contains(&i) || i == n {
            let c = oalloc::counters();
            res.peak_at.push((i, c.peak_bytes));
        }
        if i % 64 == 0 {
            let c = oalloc::counters();
            if c.live_bytes > abort_at {
                let bp = res.bound_peak;
                fail(&mut res, "live-memory-runaway", format!("round {}: {} live bytes, bound {} (run stopped at 64x)", i, c.live_bytes, bp));
                break;
            }
        }
    }
    res.rounds_run = i;
    let c_end = oalloc::counters();
    res.total_byte_allocs = c_end.byte_allocs - c_start.byte_allocs;
    res.late_byte_allocs = late_start_allocs.map(|s| buf_allocs - s).unwrap_or(0);
    let peak = c_end.peak_bytes;
    res.ratio = (peak.saturating_sub(4096)) as f64 / (((k + 2) * w) as f64);
    if res.viol.is_none() {
        if peak > res.bound_peak {
            res.viol = Some((
                "peak-live-memory-grows".into(),
                format!("peak live bytes {} after {} rounds exceeds the N-independent bound (k+2)*8*W+4096 = {} (W={}, k={}); peaks by rounds: {:?}", peak, i, res.bound_peak, w, k, res.peak_at),
            ));
        } else if k == 0 && n >= 100 && res.late_byte_allocs > res.bound_allocs {
            res.viol = Some((
                "byte-buffer-allocations-grow".into(),
                format!("{} byte-buffer allocations in rounds ({}, {}] with every part dropped before the next refill; bound 2*log2(8W)+8 = {} (W={})", res.late_byte_allocs, n / 10, n, res.bound_allocs, w),
            ));
        }
    }
    let _ = call(move || {
        drop(buf);
        drop(kept);
    });
    let end = oalloc::case_end();
    if res.viol.is_none() && !end.leaked.is_empty() {
        res.viol = Some(("leak-at-end".into(), format!("{} block(s) still allocated after the run", end.leaked.len())));
    }
    oalloc::set_quarantine(true);
    res
}

fn round_strategy() -> BoxedStrategy<Round> {
    let m = prop_oneof![4 => 1u32..=64, 3 => 65u32..=1500, 1 => Just(4096u32), 1 => Just(0u32), 1 => Just(1024u32)];
    let reserve = prop_oneof![4 => Just(0u32), 2 => 1u32..=4096, 1 => Just(65536u32), 1 => Just(128u32), 3 => Just(u32::MAX)];
    (reserve, 0u8..NAPP, m, 0u8..8, 0u8..=16, 0u8..8).prop_map(|(reserve, app_m, m, cons_m, frac, fate)| Round { reserve, app_m, m, cons_m, frac, fate }).boxed()
}
pub fn pattern_strategy(max_period: usize) -> BoxedStrategy<Pattern> {
    let caps = prop_oneof![2 => Just(0u32), 2 => 1u32..=128, 2 => Just(1024u32), 1 => Just(4096u32), 1 => Just(65536u32), 1 => Just(65535u32), 1 => 129u32..=9000];
    let lmax = prop_oneof![3 => Just(0u32), 3 => 1u32..=64, 2 => 65u32..=2000];
    (caps, proptest::collection::vec(round_strategy(), 1..=max_period), 0u8..5, lmax, prop_oneof![4 => Just(0u8), 1 => 1u8..=7])
        .prop_map(|(init_cap, rounds, k, lmax, relabel_every)| Pattern { init_cap, rounds, k, lmax, relabel_every })
        .boxed()
}

pub fn main_recycle(args: &Args) -> i32 {
    util::install_crash_reporter();
    util::CASE_ALARM_SECS.store(900, std::sync::atomic::Ordering::Relaxed); // one case = up to 10^6 rounds
    util::silence_panics();
    let seed = args.u64("seed", 1);
    let worker = args.u64("worker", 0);
    let cases = args.u64("cases", 30);
    let n = args.u64("rounds", 10000);
    let long_n = args.u64("long-rounds", 0);
    let long_every = args.u64("long-every", 50).max(1);
    let mut viols: Vec<Value> = Vec::new();
    let record = |p: &Pattern, n: u64, r: &RunRes, how: &str, viols: &mut Vec<Value>| {
        let (o, d) = r.viol.clone().unwrap();
        viols.push(json!({"property": "C18", "oracle": o, "detail": d, "op": "recycle", "found_by": how, "profile": util::profile_name(), "replay": p.to_json(n),
            "trace": [format!("pattern: {:?}", p), format!("W={} k={} bound_peak={} peaks={:?} late_byte_allocs={} (bound {})", r.w, p.k % 5, r.bound_peak, r.peak_at, r.late_byte_allocs, r.bound_allocs)]}));
    };
    if let Some(path) = args.kv.get("replay") {
        let v: Value = serde_json::from_str(&std::fs::read_to_string(path).unwrap_or_default()).unwrap_or(Value::Null);
        let Some((p, n)) = Pattern::from_json(&v) else { return 2 };
        let r = run_pattern(&p, n);
        if r.viol.is_some() {
            record(&p, n, &r, "replay", &mut viols);
        }
        println!("{}", json!({"evaluations": 1, "violations": viols, "trace": [format!("{:?}", r)]}));
        return if viols.is_empty() { 0 } else { 1 };
    }
    // ---- enumerated idioms: ONE way of consuming and ONE fate of the part, repeated with a few message-size profiles,
    //      initial capacities and retention windows (random cycles mix the styles, which dilutes a defect in one of them)
    let workers = args.u64("workers", 1).max(1);
    let mut idiom_evals = 0u64;
    let mut idiom_rounds = 0u64;
    let mut idx = 0u64;
    'idioms: for cons_m in 0u8..8 {
        for fate in 0u8..8 {
            for (k, lmax) in [(0u8, 0u32), (0, 40), (2, 0)] {
                for init_cap in [0u32, 64, 4096] {
                    for prof in 0..3 {
                        idx += 1;
                        if idx % workers != worker % workers {
                            continue;
                        }
                        let ms: &[u32] = match prof {
                            0 => &[100],
                            1 => &[1500, 1200],
                            _ => &[10, 1000, 33, 700],
                        };
                        let rounds: Vec<Round> = ms.iter().enumerate().map(|(j, &m)| Round { reserve: 0, app_m: (j % 6) as u8 + if prof == 2 { 4 } else { 0 }, m, cons_m, frac: if lmax == 0 { 16 } else { 13 }, fate }).collect();
                        let p = Pattern { init_cap, rounds, k, lmax, relabel_every: 0 };
                        util::set_current_case(&p.to_json(n).to_string());
                        let r = run_pattern(&p, n);
                        idiom_evals += 1;
                        idiom_rounds += r.rounds_run;
                        if r.viol.is_some() {
                            record(&p, n, &r, "enumerated idiom", &mut viols);
                            break 'idioms;
                        }
                    }
                }
            }
        }
    }
    // ---- the same with ONE way of appending throughout (the refill goes through different code for each of them)
    if viols.is_empty() {
        'apps: for app_m in 0u8..NAPP {
            for cons_m in 0u8..8 {
                for fate in [0u8, 3, 7] {
                    for (k, lmax) in [(0u8, 0u32), (0, 40), (2, 0)] {
                        for (init_cap, reserve) in [(0u32, u32::MAX), (4096, u32::MAX), (64, 0)] {
                            idx += 1;
                            if idx % workers != worker % workers {
                                continue;
                            }
                            let rounds: Vec<Round> = [96u32, 700].iter().map(|&m| Round { reserve, app_m, m, cons_m, frac: if lmax == 0 { 16 } else { 13 }, fate }).collect();
                            let p = Pattern { init_cap, rounds, k, lmax, relabel_every: 0 };
                            util::set_current_case(&p.to_json(n).to_string());
                            let r = run_pattern(&p, n);
                            idiom_evals += 1;
                            idiom_rounds += r.rounds_run;
                            if r.viol.is_some() {
                                record(&p, n, &r, "enumerated idiom (one append method)", &mut viols);
                                break 'apps;
                            }
                        }
                    }
                }
            }
        }
    }
    if !viols.is_empty() {
        println!("{}", json!({"engine": "recycle", "property": "C18", "profile": util::profile_name(), "seed": seed, "worker": worker, "evaluations": idiom_evals,
            "nontrivial_distinct_this_worker": 0, "histogram": {"rounds_executed": idiom_rounds, "enumerated_idiom_patterns": idiom_evals}, "samples": [], "violations": viols}));
        return 1;
    }
    let strat = pattern_strategy(args.usize("max-period", 16));
    let mut s = [0u8; 32];
    s[..8].copy_from_slice(&seed.to_le_bytes());
    s[8..16].copy_from_slice(&worker.to_le_bytes());
    s[16] = 18;
    let mut runner = TestRunner::new_with_rng(
        Config { cases: cases as u32, failure_persistence: None, max_shrink_iters: 300, rng_seed: RngSeed::Fixed(seed), ..Config::default() },
        TestRng::from_seed(RngAlgorithm::ChaCha, &s),
    );
    struct Acc {
        failed: bool,
        idx: u64,
        evals: u64,
        rounds_total: u64,
        sole: u64,
        worst_ratio: f64,
        worst_late: u64,
        hist: [u64; 6],
        nontriv: HashSet<u64>,
        samples: Vec<Value>,
    }
    let acc = std::cell::RefCell::new(Acc { failed: false, idx: 0, evals: 0, rounds_total: 0, sole: 0, worst_ratio: 0.0, worst_late: 0, hist: [0; 6], nontriv: HashSet::new(), samples: Vec::new() });
    let res = runner.run(&strat, |p| {
        let mut a = acc.borrow_mut();
        let a = &mut *a;
        a.idx += 1;
        let this_n = if long_n > 0 && a.idx % long_every == 0 && !a.failed { long_n } else { n };
        // long runs: cap message sizes so that memcpy work stays bounded
        let p = if this_n > 100_000 {
            let mut q = p.clone();
            for r in q.rounds.iter_mut() {
                r.m = r.m.min(4096);
            }
            q
        } else {
            p
        };
        util::set_current_case(&p.to_json(this_n).to_string());
        let r = run_pattern(&p, this_n);
        if !a.failed {
            a.evals += 1;
            a.rounds_total += r.rounds_run;
            a.sole += r.sole_claims;
            if r.ratio > a.worst_ratio {
                a.worst_ratio = r.ratio;
            }
            if p.k % 5 == 0 && r.late_byte_allocs > a.worst_late {
                a.worst_late = r.late_byte_allocs;
            }
            a.hist[0] += r.saw_reclaim as u64;
            a.hist[1] += r.saw_shift as u64;
            a.hist[2] += r.saw_alloc_while_shared as u64;
            a.hist[3] += r.saw_leftover as u64;
            a.hist[4] += (p.k % 5 == 0) as u64;
            a.hist[5] += (this_n > n) as u64;
            let nt = r.shapes >= 2 && r.saw_leftover && r.saw_reclaim && (p.k % 5 == 0 || r.saw_alloc_while_shared);
            if nt && r.viol.is_none() {
                if a.nontriv.insert(fnv64(p.to_json(this_n).to_string().as_bytes())) && a.samples.len() < 3 {
                    a.samples.push(json!({"pattern": p.to_json(this_n), "W": r.w, "peaks_by_rounds": r.peak_at, "bound_peak": r.bound_peak, "late_byte_allocs": r.late_byte_allocs, "ratio": r.ratio}));
                }
            }
        }
        if r.viol.is_some() {
            a.failed = true;
            Err(TestCaseError::fail("c18"))
        } else {
            Ok(())
        }
    });
    let Acc { evals, rounds_total, sole, worst_ratio, worst_late, hist, nontriv, samples, .. } = acc.into_inner();
    if let Err(TestError::Fail(_, p)) = res {
        let r = run_pattern(&p, n);
        if r.viol.is_some() {
            record(&p, n, &r, "random pattern, shrunk by proptest", &mut viols);
        } else {
            // the shrunk pattern only fails at the long length
            let r2 = run_pattern(&p, long_n.max(n));
            if r2.viol.is_some() {
                record(&p, long_n.max(n), &r2, "random pattern, shrunk by proptest", &mut viols);
            }
        }
    }
    if let Some(p) = args.kv.get("hashes-out") {
        util::write_hashes(p, &nontriv);
    }
    let out = json!({
        "engine": "recycle", "property": "C18", "profile": util::profile_name(), "seed": seed, "worker": worker,
        "evaluations": evals + idiom_evals, "nontrivial_distinct_this_worker": nontriv.len(),
        "histogram": {"rounds_executed": rounds_total + idiom_rounds, "enumerated_idiom_patterns": idiom_evals, "patterns_with_reclaim_without_allocation": hist[0], "patterns_with_shift_to_front": hist[1], "patterns_with_fresh_allocation_while_shared": hist[2],
            "patterns_with_nonempty_leftover": hist[3], "patterns_with_k0(allocation-count bound applies)": hist[4], "patterns_run_at_the_long_length": hist[5], "sole_owner_reserve_claims": sole},
        "extra": {"worst (peak-4096)/((k+2)*W) (bound 8)": worst_ratio, "worst late byte-buffer allocations with k=0": worst_late, "rounds": n, "long_rounds": long_n},
        "samples": samples, "violations": viols,
    });
    println!("{}", out);
    if viols.is_empty() {
        0
    } else {
        1
    }
}
