//! Engine B runner (read side): generators for adapter trees / op sequences, the enumerated C10
//! table, reporting for C09 / C10 / C12.

use crate::bufeng::*;
use crate::bufnode::*;
use crate::util::{self, fnv64, Args};
use proptest::prelude::*;
use proptest::test_runner::{Config, RngAlgorithm, RngSeed, TestCaseError, TestError, TestRng, TestRunner};
use serde_json::{json, Value};
use std::collections::HashSet;
use std::panic::{catch_unwind, AssertUnwindSafe};

#[derive(Clone, Debug)]
pub struct BCase {
    pub spec: Spec,
    pub ops: Vec<(u8, u32, u32)>,
}
impl BCase {
    pub fn to_json(&self) -> Value {
        json!({"engine": "buf", "spec": self.spec.to_json(), "ops": self.ops.iter().map(|o| json!([o.0, o.1, o.2])).collect::<Vec<_>>()})
    }
    pub fn from_json(v: &Value) -> Option<BCase> {
        let spec = Spec::from_json(v.get("spec")?)?;
        let ops = v.get("ops")?.as_array()?.iter().map(|o| (o[0].as_u64().unwrap_or(0) as u8, o[1].as_u64().unwrap_or(0) as u32, o[2].as_u64().unwrap_or(0) as u32)).collect();
        Some(BCase { spec, ops })
    }
}

pub struct BOut {
    pub dg: u64,
    pub viols: Vec<BViol>,
    pub flags: BFlags,
    pub trace: Option<Vec<String>>,
    pub adapters: usize,
    pub depth: usize,
}

pub fn run_bcase(c: &BCase, st: &mut BStats, trace: bool) -> BOut {
    let mut it = BInterp::new(&c.spec, st, trace);
    it.observe();
    for (i, op) in c.ops.iter().enumerate() {
        if it.ended || it.hard_viol() || it.viols.len() > 1 {
            break;
        }
        it.step = i;
        it.exec(op.0, op.1, op.2);
    }
    if it.viols.is_empty() && !it.ended {
        it.finish();
    } else {
        // unspecified state after a contract panic: just let the tree drop
        let r = it.root.take();
        let _ = catch_unwind(AssertUnwindSafe(move || drop(r)));
    }
    let mut adapters = c.spec.adapters();
    let mut depth = c.spec.depth();
    for op in &c.ops {
        if matches!(op.0 % 21, 8 | 9 | 10 | 16 | 17) {
            adapters += 1;
            depth += 1;
        }
    }
    let dg = it.dg ^ (it.viols.len() as u64).wrapping_mul(0x9E3779B97F4A7C15);
    BOut { dg, viols: std::mem::take(&mut it.viols), flags: it.flags, trace: it.trace.take(), adapters, depth }
}

fn nontrivial(prop: &str, o: &BOut) -> bool {
    match prop {
        "C09" => o.adapters >= 2 && (o.flags.crossed || o.flags.limit_edge),
        "C10" => o.flags.straddle || o.flags.signed_neg || o.flags.shortfall,
        "C12" => o.depth >= 2 && o.flags.limit_edge,
        _ => false,
    }
}

// ---------------------------------------------------------------------------------------------
// strategies

fn leaf_strategy() -> BoxedStrategy<Spec> {
    // mostly small; rarely a leaf above the thresholds at which size-dependent fast paths could switch (256, 4 KiB, 16 KiB, 64 KiB)
    let len = prop_oneof![60 => 0usize..=8, 30 => 9usize..=48, 10 => Just(0usize), 2 => Just(300usize), 1 => Just(4100usize), 1 => Just(16400usize), 1 => Just(65600usize)];
    (0u8..NKINDS, len, any::<u8>(), any::<u8>())
        .prop_map(|(kind, n, seed, pre)| Spec::Leaf { kind, data: (0..n).map(|i| seed.wrapping_add((i * 7) as u8) | 1).collect(), pre })
        .boxed()
}

fn limit_for(inner: &Spec, sel: u32) -> usize {
    let mut arena = Arena::default();
    let (_n, m) = build(inner, &mut arena);
    let rem = m.remaining();
    let chunk = m.first_fragment();
    match sel % 9 {
        0 => 0,
        1 => rem / 2,
        2 => rem,
        3 => rem.saturating_add(1),
        4 => usize::MAX,
        5 => chunk,
        6 => chunk.saturating_sub(1),
        7 => chunk + 1,
        _ => (sel as usize / 9) % (rem.min(1 << 20) + 2),
    }
}

pub fn spec_strategy(depth: u32) -> BoxedStrategy<Spec> {
    leaf_strategy()
        .prop_recursive(depth, 24, 2, |inner| {
            prop_oneof![
                5 => (inner.clone(), inner.clone()).prop_map(|(a, b)| Spec::Chain(Box::new(a), Box::new(b))),
                3 => (inner.clone(), any::<u32>()).prop_map(|(i, s)| { let l = limit_for(&i, s); Spec::Take(Box::new(i), l) }),
                1 => inner.clone().prop_map(|i| Spec::MutRef(Box::new(i))),
                1 => inner.clone().prop_map(|i| Spec::Boxed(Box::new(i))),
            ]
        })
        .boxed()
}

fn op_strategy(prop: &str) -> BoxedStrategy<(u8, u32, u32)> {
    let codes: Vec<(u32, u8)> = match prop {
        "C10" | "C02" => vec![(3, 1), (10, 6), (10, 7), (1, 8), (1, 9), (1, 10), (1, 16), (1, 17), (1, 3)],
        "C12" => vec![(5, 1), (2, 2), (3, 3), (1, 4), (4, 5), (2, 6), (2, 7), (4, 8), (2, 9), (2, 10), (4, 11), (4, 12), (4, 13), (1, 14), (1, 15), (1, 16), (1, 17), (1, 18), (3, 19)],
        _ => vec![(6, 1), (5, 2), (4, 3), (2, 4), (5, 5), (2, 6), (2, 7), (3, 8), (2, 9), (2, 10), (1, 11), (1, 12), (1, 13), (1, 14), (1, 15), (1, 16), (1, 17), (2, 18), (2, 19)],
    };
    let ks: Vec<(u32, BoxedStrategy<u8>)> = codes.into_iter().map(|(w, c)| (w, Just(c).boxed())).collect();
    (proptest::strategy::Union::new_weighted(ks), 0u32..4096, 0u32..4096).boxed()
}

pub fn bcase_strategy(prop: &str) -> BoxedStrategy<BCase> {
    (spec_strategy(4), proptest::collection::vec(op_strategy(prop), 0..=12)).prop_map(|(spec, ops)| BCase { spec, ops }).boxed()
}

// ---------------------------------------------------------------------------------------------
// C10 enumerated table: method x nbytes x cut pattern x shortfall x value pattern x wrapper

fn value_pattern(p: usize, k: usize, salt: u64) -> Vec<u8> {
    let mut v = vec![0u8; k];
    match p {
        0 => {}
        1 => v.iter_mut().for_each(|b| *b = 0xff),
        2 => {
            if k > 0 {
                v[0] = 0x80
            }
        }
        3 => {
            v.iter_mut().for_each(|b| *b = 0xff);
            if k > 0 {
                v[0] = 0x7f
            }
        }
        4 => {
            if k > 0 {
                v[k - 1] = 0x80
            }
        }
        5 => v.iter_mut().enumerate().for_each(|(i, b)| *b = (i as u8 + 1).wrapping_mul(0x11)),
        6 => {
            v.iter_mut().for_each(|b| *b = 0xff);
            if k > 0 {
                v[k - 1] = 0x7f
            }
        }
        _ => {
            let mut s = util::SplitMix(salt);
            v.iter_mut().for_each(|b| *b = s.next() as u8);
        }
    }
    v
}

/// spec for a value cut into chunks by `mask` (bit i set = boundary after byte i), with `before`
/// and `after` extra bytes, leaf kinds rotating from `kind0`, wrapped by `wrap`
fn cut_spec(bytes: &[u8], mask: u32, before: usize, after: usize, kind0: u8, wrap: u8) -> (Spec, usize) {
    let mut parts: Vec<Vec<u8>> = Vec::new();
    let mut cur = Vec::new();
    for (i, &b) in bytes.iter().enumerate() {
        cur.push(b);
        if i + 1 < bytes.len() && mask & (1 << i) != 0 {
            parts.push(std::mem::take(&mut cur));
        }
    }
    parts.push(cur);
    // extra bytes before share the first leaf (to be skipped by advance), after: appended to the last
    let pre: Vec<u8> = (0..before).map(|i| 0xA0 + i as u8).collect();
    let mut first = pre.clone();
    first.extend_from_slice(&parts[0]);
    parts[0] = first;
    let n = parts.len();
    parts[n - 1].extend((0..after).map(|i| 0xB0 + i as u8));
    let mut specs: Vec<Spec> = parts.into_iter().enumerate().map(|(i, d)| Spec::Leaf { kind: (kind0 as usize + i * 5) as u8 % NKINDS, data: d, pre: (i as u8) + 1 }).collect();
    // cursor-past-end leaves carry no data: avoid that kind for data-bearing fragments
    for s in specs.iter_mut() {
        if let Spec::Leaf { kind, .. } = s {
            if *kind % NKINDS == 10 {
                *kind = 7;
            }
            if *kind % NKINDS == 13 {
                *kind = 12;
            }
        }
    }
    let mut tree = specs.pop().unwrap();
    while let Some(s) = specs.pop() {
        tree = Spec::Chain(Box::new(s), Box::new(tree));
    }
    let total = before + bytes.len() + after;
    let tree = match wrap % 6 {
        0 => tree,
        1 => Spec::Take(Box::new(tree), before + bytes.len()), // limit exactly at the end of the value
        2 => Spec::Take(Box::new(tree), total + 3),
        3 => Spec::MutRef(Box::new(tree)),
        4 => Spec::Boxed(Box::new(tree)),
        _ => Spec::Boxed(Box::new(Spec::Take(Box::new(Spec::MutRef(Box::new(tree))), usize::MAX))),
    };
    (tree, before)
}

pub struct Col {
    pub prop: String,
    pub evals: u64,
    pub nontriv: HashSet<u64>,
    pub st: BStats,
    pub samples: Vec<Value>,
    pub viols: Vec<Value>,
    pub failed: bool,
    pub foreign: u64,
}
impl Col {
    fn eval(&mut self, c: &BCase, count: bool) -> Option<(String, String, String)> {
        let text = c.to_json().to_string();
        util::set_current_case(&text);
        let mut scratch = BStats::default();
        let o = run_bcase(c, if count { &mut self.st } else { &mut scratch }, false);
        if count {
            self.evals += 1;
            if o.viols.is_empty() && nontrivial(&self.prop, &o) {
                if self.nontriv.insert(fnv64(text.as_bytes())) && self.samples.len() < 4 && self.nontriv.len() % 53 == 1 {
                    let mut s2 = BStats::default();
                    let t = run_bcase(c, &mut s2, true).trace.unwrap_or_default();
                    self.samples.push(json!({"case": c.to_json(), "trace": t}));
                }
            }
        }
        if let Some(v) = o.viols.iter().find(|v| v.prop == self.prop) {
            return Some((v.prop.to_string(), v.oracle.to_string(), v.detail.clone()));
        }
        if !o.viols.is_empty() && count {
            self.foreign += 1;
        }
        None
    }
    fn record(&mut self, c: &BCase, v: (String, String, String), how: &str) {
        let mut s2 = BStats::default();
        let o = run_bcase(c, &mut s2, true);
        let mut t = o.trace.unwrap_or_default();
        for x in &o.viols {
            t.push(format!("!! {} [{}] at step {}: {}", x.prop, x.oracle, x.step, x.detail));
        }
        let opname = o.viols.iter().find(|x| x.prop == v.0).map(|x| c.ops.get(x.step).map(|o| OP_NAMES[(o.0 % 21) as usize]).unwrap_or("build/observe")).unwrap_or("");
        self.viols.push(json!({"property": v.0, "oracle": v.1, "detail": v.2, "op": opname, "found_by": how, "profile": util::profile_name(), "replay": c.to_json(), "trace": t}));
    }
}

fn shrink_ops(col: &mut Col, c: &BCase) -> BCase {
    let mut best = c.clone();
    let mut i = 0;
    while i < best.ops.len() {
        let mut t = best.clone();
        t.ops.remove(i);
        if col.eval(&t, false).is_some() {
            best = t;
        } else {
            i += 1;
        }
    }
    best
}

/// enumerates the C10 table; `f(index, get-case, try_get-case)` returns false to stop
pub fn c10_entries(thorough: bool, mut f: impl FnMut(u64, BCase, BCase) -> bool) {
    let mut idx: u64 = 0;
    for (gi, g) in GETTERS.iter().enumerate() {
        let widths: Vec<usize> = if g.size == 0 { (0..=8).collect() } else { vec![g.size] };
        for k in widths {
            let nmasks: u32 = if k <= 1 { 1 } else if k <= 8 { 1 << (k - 1) } else { 64 };
            for mi in 0..nmasks {
                let mask = if k <= 8 { mi } else { (util::SplitMix(mi as u64 * 77 + 5).next() as u32) & 0x7fff };
                // shortfall s: only k - s bytes present (s = 0: all there)
                for short in 0..=k.min(if thorough { 16 } else { 3 }) {
                    let pats: &[usize] = if thorough { &[0, 1, 2, 3, 4, 5, 6, 7] } else { &[1, 2, 5, 7] };
                    for &p in pats {
                        idx += 1;
                        let val = value_pattern(p, k, idx);
                        let present = &val[..k - short];
                        let before = (idx % 3) as usize;
                        let after = if short > 0 { 0 } else { ((idx / 3) % 3) as usize };
                        let (spec, skip) = cut_spec(present, mask, before, after, (idx % 11) as u8, ((idx / 7) % 6) as u8);
                        // skip the bytes before the value, then get / try_get on twin trees
                        let mut ops = Vec::new();
                        for _ in 0..skip {
                            ops.push((1u8, 1u32, 0u32));
                        }
                        let mut c1 = BCase { spec: spec.clone(), ops: ops.clone() };
                        c1.ops.push((6, gi as u32, k as u32));
                        let mut c2 = BCase { spec, ops };
                        c2.ops.push((7, gi as u32, k as u32));
                        if !f(idx, c1, c2) {
                            return;
                        }
                    }
                }
            }
        }
    }
}

fn c10_enumerate(col: &mut Col, worker: u64, workers: u64, thorough: bool) -> (u64, bool) {
    let mut done = 0u64;
    let mut complete = true;
    c10_entries(thorough, |idx, c1, c2| {
        if idx % workers != worker {
            return true;
        }
        for c in [&c1, &c2] {
            if let Some(v) = col.eval(c, true) {
                let small = shrink_ops(col, c);
                let v2 = col.eval(&small, false).unwrap_or(v);
                col.record(&small, v2, "enumerated getter table");
                complete = false;
                return false;
            }
        }
        done += 2;
        true
    });
    (done, complete)
}

pub fn main_buf(args: &Args) -> i32 {
    util::install_crash_reporter();
    util::silence_panics();
    let prop = args.str("prop", "C09");
    let seed = args.u64("seed", 1);
    let worker = args.u64("worker", 0);
    let workers = args.u64("workers", 1).max(1);
    let cases = args.u64("cases", 1000);
    let mut col = Col { prop: prop.clone(), evals: 0, nontriv: HashSet::new(), st: BStats::default(), samples: vec![], viols: vec![], failed: false, foreign: 0 };
    if let Some(path) = args.kv.get("replay") {
        let v: Value = serde_json::from_str(&std::fs::read_to_string(path).unwrap_or_default()).unwrap_or(Value::Null);
        let Some(c) = BCase::from_json(&v) else { return 2 };
        let r = col.eval(&c, true);
        let mut s2 = BStats::default();
        let t = run_bcase(&c, &mut s2, true).trace.unwrap_or_default();
        if let Some(v) = r {
            col.record(&c, v, "replay");
        }
        println!("{}", json!({"evaluations": col.evals, "violations": col.viols, "trace": t}));
        return if col.viols.is_empty() { 0 } else { 1 };
    }
    let mut exhaustive = Vec::new();
    if prop == "C10" {
        let (done, complete) = c10_enumerate(&mut col, worker, workers, args.has("thorough"));
        exhaustive.push(json!({"space": "38 get_X + 38 try_get_X methods x nbytes 0..=8 x every cut of the value into chunks (all 2^(k-1) for k<=8, 64 sampled for k=16) x shortfalls x value patterns; leaf kinds / wrappers / surrounding bytes rotated",
            "histories_this_worker": done, "histories_total": 0, "complete": complete}));
        col.failed = !complete;
    }
    if cases > 0 && !col.failed {
        let strat = bcase_strategy(&prop);
        let mut s = [0u8; 32];
        s[..8].copy_from_slice(&seed.to_le_bytes());
        s[8..16].copy_from_slice(&worker.to_le_bytes());
        s[16..24].copy_from_slice(&fnv64(prop.as_bytes()).to_le_bytes());
        let mut runner = TestRunner::new_with_rng(
            Config { cases: cases as u32, failure_persistence: None, max_shrink_iters: 20000, rng_seed: RngSeed::Fixed(seed), ..Config::default() },
            TestRng::from_seed(RngAlgorithm::ChaCha, &s),
        );
        let cell = std::cell::RefCell::new(&mut col);
        let res = runner.run(&strat, |c| {
            let mut g = cell.borrow_mut();
            let counting = !g.failed;
            match g.eval(&c, counting) {
                Some(v) => {
                    g.failed = true;
                    Err(TestCaseError::fail(format!("{} {}", v.0, v.1)))
                }
                None => Ok(()),
            }
        });
        drop(cell);
        if let Err(TestError::Fail(_, c)) = res {
            if let Some(v) = col.eval(&c, false) {
                col.record(&c, v, "random tree + op sequence, shrunk by proptest");
            }
        }
    }
    if let Some(p) = args.kv.get("hashes-out") {
        util::write_hashes(p, &col.nontriv);
    }
    let st = &col.st;
    let mut ops = serde_json::Map::new();
    for (i, n) in OP_NAMES.iter().enumerate() {
        ops.insert(n.to_string(), json!(st.ops[i]));
    }
    let mut kinds = serde_json::Map::new();
    for (i, n) in KIND_NAMES.iter().enumerate() {
        kinds.insert(n.to_string(), json!(st.leaf_kinds[i]));
    }
    let mut classes = serde_json::Map::new();
    for (i, n) in CLASS_NAMES.iter().enumerate() {
        classes.insert(n.to_string(), json!(st.classes[i]));
    }
    let mut getters = serde_json::Map::new();
    for (i, g) in GETTERS.iter().enumerate() {
        getters.insert(format!("get_{}", g.name), json!(st.getters[i]));
        getters.insert(format!("try_get_{}", g.name), json!(st.try_getters[i]));
    }
    let out = json!({
        "engine": "buf", "property": prop, "profile": util::profile_name(), "seed": seed, "worker": worker,
        "evaluations": col.evals, "nontrivial_distinct_this_worker": col.nontriv.len(),
        "exhaustive": exhaustive,
        "histogram": {"ops": ops, "leaf_kinds": kinds, "required_classes": classes, "typed_reads": getters, "expected_panics": st.panics,
            "structural_walks": st.struct_walks, "vectored_slices_seen": st.vectored_slices, "direct_inner_access(get_mut/first_mut/last_mut)": st.inner_direct, "cases_ended_by_another_property's_violation": col.foreign},
        "samples": col.samples, "violations": col.viols,
    });
    println!("{}", out);
    if col.viols.is_empty() {
        0
    } else {
        1
    }
}
