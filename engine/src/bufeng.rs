//! Engine B, read side: adapter trees over the crate's Buf implementors vs a flat sequence model
//! (C09), typed reads (C10) and the structural model of Take / Chain / Reader (C12).

use crate::bufnode::*;
use crate::hist::{Owner, OwnerBuf, OwnerStats};
use bytes::{Buf, Bytes, BytesMut};
use serde_json::{json, Value};
use std::collections::VecDeque;
use std::panic::{catch_unwind, AssertUnwindSafe};
use std::sync::Arc;

/// C16 differential: restrict leaves and ops to what exists in every feature set (no io::Cursor, no
/// chunks_vectored, no Reader), identically in all configurations
pub static DIGEST_MODE: std::sync::atomic::AtomicBool = std::sync::atomic::AtomicBool::new(false);
pub fn digest_mode() -> bool {
    DIGEST_MODE.load(std::sync::atomic::Ordering::Relaxed)
}
pub const NKINDS: u8 = 14;
pub const KIND_NAMES: [&str; 14] = [
    "slice",
    "bytes-promotable",
    "bytes-shared-offset",
    "bytes-static",
    "bytesmut-vec",
    "bytesmut-offset",
    "deque-contiguous",
    "deque-wrapped",
    "cursor-vec(pos)",
    "cursor-bytes(pos)",
    "cursor-past-end",
    "bytes-owner",
    "user Buf (honest, 1-3 byte chunks, default methods only)",
    "user Buf (honest, remaining() near usize::MAX)",
];

#[derive(Clone, Debug, PartialEq)]
pub enum Spec {
    Leaf { kind: u8, data: Vec<u8>, pre: u8 },
    Chain(Box<Spec>, Box<Spec>),
    Take(Box<Spec>, usize),
    MutRef(Box<Spec>),
    Boxed(Box<Spec>),
}

impl Spec {
    pub fn to_json(&self) -> Value {
        match self {
            Spec::Leaf { kind, data, pre } => json!({"n": "leaf", "k": kind, "d": data, "p": pre}),
            Spec::Chain(a, b) => json!({"n": "chain", "a": a.to_json(), "b": b.to_json()}),
            Spec::Take(i, l) => json!({"n": "take", "i": i.to_json(), "l": (*l as u64).to_string()}),
            Spec::MutRef(i) => json!({"n": "ref", "i": i.to_json()}),
            Spec::Boxed(i) => json!({"n": "box", "i": i.to_json()}),
        }
    }
    pub fn from_json(v: &Value) -> Option<Spec> {
        match v.get("n")?.as_str()? {
            "leaf" => Some(Spec::Leaf {
                kind: v["k"].as_u64()? as u8,
                data: v["d"].as_array()?.iter().map(|x| x.as_u64().unwrap_or(0) as u8).collect(),
                pre: v["p"].as_u64()? as u8,
            }),
            "chain" => Some(Spec::Chain(Box::new(Spec::from_json(&v["a"])?), Box::new(Spec::from_json(&v["b"])?))),
            "take" => Some(Spec::Take(Box::new(Spec::from_json(&v["i"])?), v["l"].as_str()?.parse::<u64>().ok()? as usize)),
            "ref" => Some(Spec::MutRef(Box::new(Spec::from_json(&v["i"])?))),
            "box" => Some(Spec::Boxed(Box::new(Spec::from_json(&v["i"])?))),
            _ => None,
        }
    }
    pub fn describe(&self) -> String {
        match self {
            Spec::Leaf { kind, data, pre } => format!("{}[{}{}]", KIND_NAMES[(*kind % NKINDS) as usize], data.len(), if *pre > 0 { format!(",pre{}", pre) } else { String::new() }),
            Spec::Chain(a, b) => format!("Chain({}, {})", a.describe(), b.describe()),
            Spec::Take(i, l) => format!("Take({}, {})", i.describe(), if *l == usize::MAX { "MAX".to_string() } else { l.to_string() }),
            Spec::MutRef(i) => format!("&mut {}", i.describe()),
            Spec::Boxed(i) => format!("Box({})", i.describe()),
        }
    }
    pub fn adapters(&self) -> usize {
        match self {
            Spec::Leaf { .. } => 0,
            Spec::Chain(a, b) => 1 + a.adapters() + b.adapters(),
            Spec::Take(i, _) | Spec::MutRef(i) | Spec::Boxed(i) => 1 + i.adapters(),
        }
    }
    pub fn depth(&self) -> usize {
        match self {
            Spec::Leaf { .. } => 0,
            Spec::Chain(a, b) => 1 + a.depth().max(b.depth()),
            Spec::Take(i, _) | Spec::MutRef(i) | Spec::Boxed(i) => 1 + i.depth(),
        }
    }
}

/// reference model of the adapters: obviously-correct re-implementation over plain vectors
#[derive(Clone, Debug)]
pub enum MNode {
    Leaf { rest: Vec<u8>, extra: usize, chunk_cap: usize },
    Chain(Box<MNode>, Box<MNode>),
    Take(Box<MNode>, usize),
    Wrap(Box<MNode>),
}
impl MNode {
    pub fn rest(&self) -> Vec<u8> {
        match self {
            MNode::Leaf { rest, extra, .. } => {
                // materialised prefix: the real bytes plus up to 4096 of the virtual filler
                let mut v = rest.clone();
                v.extend(std::iter::repeat(0x5Au8).take((*extra).min(4096)));
                v
            }
            MNode::Chain(a, b) => {
                let mut v = a.rest();
                if a.remaining() <= v.len() {
                    v.extend(b.rest());
                }
                v
            }
            MNode::Take(i, l) => {
                let mut v = i.rest();
                v.truncate(*l);
                v
            }
            MNode::Wrap(i) => i.rest(),
        }
    }
    pub fn remaining(&self) -> usize {
        match self {
            MNode::Leaf { rest, extra, .. } => rest.len().saturating_add(*extra),
            MNode::Chain(a, b) => a.remaining().saturating_add(b.remaining()),
            MNode::Take(i, l) => i.remaining().min(*l),
            MNode::Wrap(i) => i.remaining(),
        }
    }
    pub fn advance(&mut self, n: usize) {
        match self {
            MNode::Leaf { rest, extra, .. } => {
                let k = n.min(rest.len());
                rest.drain(..k);
                *extra -= n - k;
            }
            MNode::Chain(a, b) => {
                let x = a.remaining().min(n);
                a.advance(x);
                b.advance(n - x);
            }
            MNode::Take(i, l) => {
                i.advance(n);
                *l -= n;
            }
            MNode::Wrap(i) => i.advance(n),
        }
    }
    /// length of the first physical fragment (what an honest `chunk()` could at most return)
    pub fn first_fragment(&self) -> usize {
        match self {
            MNode::Leaf { rest, extra, chunk_cap } => {
                if !rest.is_empty() {
                    rest.len().min(*chunk_cap)
                } else {
                    (*extra).min(64).min(*chunk_cap)
                }
            }
            MNode::Chain(a, b) => {
                if a.remaining() > 0 {
                    a.first_fragment()
                } else {
                    b.first_fragment()
                }
            }
            MNode::Take(i, l) => i.first_fragment().min(*l),
            MNode::Wrap(i) => i.first_fragment(),
        }
    }
}

#[derive(Default)]
pub struct Arena {
    bufs: Vec<Box<[u8]>>,
}
impl Arena {
    pub fn stat(&mut self, data: &[u8]) -> &'static [u8] {
        let b: Box<[u8]> = data.to_vec().into_boxed_slice();
        let p = b.as_ptr();
        let n = b.len();
        self.bufs.push(b);
        // SAFETY: the arena outlives every node built from it (dropped last by the case runner)
        unsafe { std::slice::from_raw_parts(p, n) }
    }
}

pub fn build_leaf(kind: u8, data: &[u8], pre: u8, arena: &mut Arena) -> (Node, (Vec<u8>, usize, usize)) {
    let (n, v) = build_leaf_inner(kind, data, pre, arena);
    n_with(n, v)
}
fn n_with(n: Node, v: Vec<u8>) -> (Node, (Vec<u8>, usize, usize)) {
    match &n {
        Node::User(u) => {
            let (e, c) = (u.extra, u.max_chunk.max(1));
            (n, (v, e, c))
        }
        _ => (n, (v, 0, usize::MAX)),
    }
}
fn build_leaf_inner(kind: u8, data: &[u8], pre: u8, arena: &mut Arena) -> (Node, Vec<u8>) {
    let pre_raw = pre;
    let pre = (pre % 8) as usize;
    let prefix: Vec<u8> = (0..pre).map(|i| 0xE0 + i as u8).collect();
    let with_prefix = || {
        let mut v = prefix.clone();
        v.extend_from_slice(data);
        v
    };
    let k = kind % NKINDS;
    #[cfg(not(feature = "bstd"))]
    let k = if (8..=10).contains(&k) { 0 } else { k };
    let k = if digest_mode() && (8..=10).contains(&k) { 0 } else { k };
    match k {
        0 => (Node::Slice(arena.stat(data)), data.to_vec()),
        1 => (Node::Bytes(Bytes::from(data.to_vec())), data.to_vec()),
        2 => {
            let mut v = Vec::with_capacity(pre + data.len() + 3);
            v.extend_from_slice(&with_prefix());
            let mut b = Bytes::from(v);
            b.advance(pre);
            (Node::Bytes(b), data.to_vec())
        }
        3 => (Node::Bytes(Bytes::from_static(arena.stat(data))), data.to_vec()),
        4 => (Node::BytesMut(BytesMut::from(data)), data.to_vec()),
        5 => {
            let mut b = BytesMut::from(&with_prefix()[..]);
            b.advance(pre);
            (Node::BytesMut(b), data.to_vec())
        }
        6 => (Node::Deque(data.iter().copied().collect::<VecDeque<u8>>()), data.to_vec()),
        7 => {
            // wrapped deque: rotate the ring so that the data straddles the end of the storage
            let mut d: VecDeque<u8> = VecDeque::with_capacity(data.len().max(4));
            let cap = d.capacity();
            let shift = if data.len() >= 2 { cap - 1 - (pre % (data.len() - 1).max(1)) } else { cap.saturating_sub(1) };
            for _ in 0..shift {
                d.push_back(0);
            }
            for _ in 0..shift {
                d.pop_front();
            }
            for &b in data {
                d.push_back(b);
            }
            (Node::Deque(d), data.to_vec())
        }
        #[cfg(feature = "bstd")]
        8 => {
            let mut c = std::io::Cursor::new(with_prefix());
            c.set_position(pre as u64);
            (Node::CursorVec(c), data.to_vec())
        }
        #[cfg(feature = "bstd")]
        9 => {
            let mut c = std::io::Cursor::new(Bytes::from(with_prefix()));
            c.set_position(pre as u64);
            (Node::CursorBytes(c), data.to_vec())
        }
        #[cfg(feature = "bstd")]
        10 => {
            let mut c = std::io::Cursor::new(data.to_vec());
            c.set_position(if pre % 2 == 0 { data.len() as u64 + 1 + pre as u64 } else { u64::MAX - pre as u64 });
            (Node::CursorVec(c), Vec::new())
        }
        12 => (Node::User(UserBuf { data: data.to_vec(), pos: 0, max_chunk: 1 + (pre_raw as usize % 3), extra: 0 }), data.to_vec()),
        13 => (Node::User(UserBuf { data: data.to_vec(), pos: 0, max_chunk: 8, extra: usize::MAX - 1000 - pre_raw as usize }), data.to_vec()),
        _ => {
            let owner = Owner { buf: OwnerBuf::V(data.to_vec()), stats: Arc::new(OwnerStats::default()), panic_in_as_ref: false };
            (Node::Bytes(Bytes::from_owner(owner)), data.to_vec())
        }
    }
}

pub fn build(spec: &Spec, arena: &mut Arena) -> (Node, MNode) {
    match spec {
        Spec::Leaf { kind, data, pre } => {
            let (n, logical) = build_leaf(*kind, data, *pre, arena);
            (n, MNode::Leaf { rest: logical.0, extra: logical.1, chunk_cap: logical.2 })
        }
        Spec::Chain(a, b) => {
            let (na, ma) = build(a, arena);
            let (nb, mb) = build(b, arena);
            (Node::Chain(Buf::chain(Box::new(na), Box::new(nb))), MNode::Chain(Box::new(ma), Box::new(mb)))
        }
        Spec::Take(i, l) => {
            let (n, m) = build(i, arena);
            (Node::Take(Buf::take(Box::new(n), *l)), MNode::Take(Box::new(m), *l))
        }
        Spec::MutRef(i) => {
            let (n, m) = build(i, arena);
            (Node::MutRef(MRef::new(n)), MNode::Wrap(Box::new(m)))
        }
        Spec::Boxed(i) => {
            let (n, m) = build(i, arena);
            (Node::Boxed(Box::new(n)), MNode::Wrap(Box::new(m)))
        }
    }
}

pub struct BViol {
    pub prop: &'static str,
    pub oracle: &'static str,
    pub detail: String,
    pub step: usize,
    /// the observation is wrong but model and tree still agree on the position: the case goes on, so that a check for
    /// another property still sees what the same state does to its own operations
    pub soft: bool,
}

#[derive(Default, Clone, Copy)]
pub struct BFlags {
    pub crossed: bool,
    pub limit_edge: bool,
    pub straddle: bool,
    pub signed_neg: bool,
    pub shortfall: bool,
    pub deque_two: bool,
    pub cursor_pos: bool,
    pub take_inside_chunk: bool,
    pub empty_between: bool,
}

pub struct BStats {
    pub ops: [u64; 32],
    pub panics: u64,
    pub struct_walks: u64,
    pub leaf_kinds: [u64; 14],
    pub getters: [u64; 38],
    pub try_getters: [u64; 38],
    pub vectored_slices: u64,
    pub inner_direct: u64,
    pub classes: [u64; 8],
}
impl Default for BStats {
    fn default() -> Self {
        BStats { ops: [0; 32], panics: 0, struct_walks: 0, leaf_kinds: [0; 14], getters: [0; 38], try_getters: [0; 38], vectored_slices: 0, inner_direct: 0, classes: [0; 8] }
    }
}
pub const CLASS_NAMES: [&str; 8] = [
    "deque leaf with two non-empty slices",
    "cursor leaf with position > 0",
    "take limit inside a chunk",
    "empty fragment between non-empty ones",
    "operation span crossed a fragment boundary",
    "operation ended exactly on / was cut by a limit",
    "typed read straddling >= 2 chunks",
    "shortfall (fewer bytes than the type needs)",
];

pub const OP_NAMES: [&str; 21] = [
    "observe", "advance", "chunks_vectored", "copy_to_slice", "try_copy_to_slice", "copy_to_bytes", "get_X", "try_get_X", "wrap take(n)", "wrap chain(self, leaf)",
    "wrap chain(leaf, self)", "set_limit", "reader().read", "reader().fill_buf+consume", "reader().read_to_end", "into_iter().collect", "wrap &mut", "wrap Box",
    "into_iter partial", "inner buffer advanced through get_mut/first_mut/last_mut", "inner buffer advanced through get_mut/first_mut/last_mut (2)",
];

fn sel_n(a: u32, chunk: usize, rem: usize) -> usize {
    match a % 16 {
        0 => 0,
        1 => 1,
        2 => chunk,
        3 => chunk + 1,
        4 => rem,
        5 => rem.saturating_add(1),
        6 => chunk.saturating_sub(1),
        7 => rem.saturating_sub(1),
        8 => rem / 2,
        9 => 2,
        10 => chunk + 2,
        11 => usize::MAX,
        _ => ((a as usize / 16) % (rem.min(1 << 20) + 2)),
    }
}
fn sel_limit(a: u32, chunk: usize, rem: usize) -> usize {
    match a % 10 {
        0 => 0,
        1 => rem / 2,
        2 => rem,
        3 => rem.saturating_add(1),
        4 => usize::MAX,
        5 => chunk,
        6 => chunk.saturating_sub(1),
        7 => chunk + 1,
        8 => 1,
        _ => (a as usize / 10) % (rem.min(1 << 20) + 3),
    }
}

/// independent decoder of the typed getters
pub fn decode(g: &GetM, bytes: &[u8], nbytes: usize) -> u128 {
    let size = if g.size == 0 { nbytes } else { g.size };
    let b = &bytes[..size];
    let le = g.endian == 1 || (g.endian == 2 && cfg!(target_endian = "little"));
    let mut v: u128 = 0;
    if le {
        for (i, &x) in b.iter().enumerate() {
            v |= (x as u128) << (8 * i);
        }
    } else {
        for &x in b {
            v = (v << 8) | x as u128;
        }
    }
    if g.signed && size > 0 && size < 16 {
        let sh = 128 - 8 * size as u32;
        v = (((v << sh) as i128) >> sh) as u128;
    }
    if g.signed && size == 0 {
        v = 0;
    }
    v
}

pub struct BInterp<'a> {
    pub root: Option<Node>,
    pub model: MNode,
    pub viols: Vec<BViol>,
    pub flags: BFlags,
    pub st: &'a mut BStats,
    pub step: usize,
    pub trace: Option<Vec<String>>,
    pub ended: bool,
    pub arena: Arena,
    pub dg: u64,
}

fn viol(v: &mut Vec<BViol>, prop: &'static str, oracle: &'static str, detail: String, step: usize) {
    if let Some(x) = v.iter_mut().find(|x| x.prop == prop) {
        // a second, different complaint about a property whose first one was soft: model and tree may no longer agree,
        // the case ends here
        if x.soft && !matches!(oracle, "has_remaining" | "chunk-empty-but-bytes-remain" | "remaining-over-reported") {
            x.soft = false;
        }
        return;
    }
    v.push(BViol { prop, oracle, detail, step, soft: false });
}

macro_rules! btr {
    ($self:expr, $($arg:tt)*) => {
        if let Some(t) = $self.trace.as_mut() {
            t.push(format!($($arg)*));
        }
    };
}

impl<'a> BInterp<'a> {
    pub fn new(spec: &Spec, st: &'a mut BStats, trace: bool) -> Self {
        let mut arena = Arena::default();
        let (n, m) = build(spec, &mut arena);
        let mut it = BInterp { root: Some(n), model: m, viols: Vec::new(), flags: BFlags::default(), st, step: 0, trace: if trace { Some(vec![format!("tree = {}", spec.describe())]) } else { None }, ended: false, arena, dg: 0xcbf29ce484222325 };
        it.classify(spec);
        it
    }

    fn classify(&mut self, spec: &Spec) {
        fn walk(s: &Spec, st: &mut BStats, fl: &mut BFlags, frags: &mut Vec<usize>) {
            match s {
                Spec::Leaf { kind, data, pre } => {
                    let k = (*kind % NKINDS) as usize;
                    st.leaf_kinds[k] += 1;
                    if (k == 8 || k == 9) && pre % 8 > 0 {
                        fl.cursor_pos = true;
                    }
                    frags.push(if k == 10 { 0 } else { data.len() });
                }
                Spec::Chain(a, b) => {
                    walk(a, st, fl, frags);
                    walk(b, st, fl, frags);
                }
                Spec::Take(i, l) => {
                    let mut f2 = Vec::new();
                    walk(i, st, fl, &mut f2);
                    if let Some(&f) = f2.iter().find(|&&x| x > 0) {
                        if *l > 0 && *l < f {
                            fl.take_inside_chunk = true;
                        }
                    }
                    frags.extend(f2);
                }
                Spec::MutRef(i) | Spec::Boxed(i) => walk(i, st, fl, frags),
            }
        }
        let mut frags = Vec::new();
        let mut fl = self.flags;
        walk(spec, self.st, &mut fl, &mut frags);
        let first = frags.iter().position(|&x| x > 0);
        let last = frags.iter().rposition(|&x| x > 0);
        if let (Some(a), Some(b)) = (first, last) {
            if frags[a..=b].iter().any(|&x| x == 0) {
                fl.empty_between = true;
            }
        }
        if fl.cursor_pos {
            self.st.classes[1] += 1;
        }
        if fl.take_inside_chunk {
            self.st.classes[2] += 1;
        }
        if fl.empty_between {
            self.st.classes[3] += 1;
        }
        self.flags = fl;
    }

    fn v(&mut self, prop: &'static str, oracle: &'static str, detail: String) {
        let s = self.step;
        viol(&mut self.viols, prop, oracle, detail, s);
    }
    #[inline]
    pub fn mix(&mut self, x: u64) {
        self.dg ^= x;
        self.dg = self.dg.wrapping_mul(0x100000001b3);
        self.dg ^= self.dg >> 29;
    }

    /// observation + structural walk after every op
    pub fn observe(&mut self) {
        let Some(root) = self.root.as_ref() else { return };
        let rest = self.model.rest();
        let mrem = self.model.remaining();
        let rem = match catch_unwind(AssertUnwindSafe(|| root.remaining())) {
            Ok(r) => r,
            Err(_) => {
                self.v("C09", "unexpected-panic", format!("remaining() panicked ({} bytes are left in the sequence)", mrem));
                self.ended = true;
                return;
            }
        };
        let mut bad: Vec<(&'static str, &'static str, String)> = Vec::new();
        // chunk() and has_remaining() never panic for a Buf that obeys the laws, whatever its position
        if catch_unwind(AssertUnwindSafe(|| (root.chunk().len(), root.has_remaining()))).is_err() {
            self.v("C09", "unexpected-panic", format!("chunk() / has_remaining() panicked ({} bytes are left in the sequence)", mrem));
            self.ended = true;
            return;
        }
        {
            let ch = root.chunk();
            let mut h = rem as u64 ^ ((ch.len() as u64) << 40);
            for &b in ch.iter().take(32) {
                h = h.wrapping_mul(31).wrapping_add(b as u64);
            }
            self.dg ^= h;
            self.dg = self.dg.wrapping_mul(0x100000001b3);
        }
        if rem > mrem {
            bad.push(("C09", "remaining-over-reported", format!("remaining()={} but {} bytes are left in the sequence", rem, mrem)));
        } else if rem != mrem {
            bad.push(("C09", "remaining", format!("remaining()={} but {} bytes are left in the sequence", rem, mrem)));
        }
        if root.has_remaining() != (mrem > 0) {
            bad.push(("C09", "has_remaining", format!("has_remaining()={} with {} bytes left", root.has_remaining(), mrem)));
        }
        let ch = root.chunk();
        if ch.len() > rest.len() || ch != &rest[..ch.len()] {
            bad.push(("C09", "chunk-not-a-prefix", format!("chunk()={:02x?} is not a prefix of the remaining sequence {:02x?}", &ch[..ch.len().min(12)], &rest[..rest.len().min(12)])));
        } else if ch.is_empty() && !rest.is_empty() {
            bad.push(("C09", "chunk-empty-but-bytes-remain", format!("chunk() is empty, {} bytes remain", rest.len())));
        }
        // structural walk (C12) - not while remaining() over-reports: the walk would only repeat that fact node by node
        if !bad.iter().any(|b| b.1 == "remaining-over-reported") {
            self.st.struct_walks += 1;
            let mut path = String::new();
            walk_struct(root, &self.model, &mut path, &mut bad, self.st, &mut self.flags);
        }
        for (p, o, d) in bad {
            // an over-reporting remaining() is soft as well: the position still agrees, and what the typed reads do with
            // such a buffer is C10's business (under-reporting and every other mismatch end the case)
            let soft = matches!(o, "has_remaining" | "chunk-empty-but-bytes-remain" | "remaining-over-reported");
            let n = self.viols.len();
            self.v(p, o, d);
            if soft && self.viols.len() > n {
                self.viols[n].soft = true;
            }
        }
    }
    /// a bulk read returned other bytes than the sequence holds, through a tree that contains take / chain: the adapter
    /// does not deliver "the first min(n, remaining) bytes" / "all of a and then b" (also C12)
    fn adapter_bytes_c12(&mut self, what: &'static str) {
        let through_adapter = self.root.as_ref().map_or(false, |r| has_take(r) || has_chain(r));
        if through_adapter {
            self.v("C12", "adapter-delivers-other-bytes", format!("{} through a tree with take / chain returned bytes that are not the next bytes of the sequence", what));
        }
    }
    /// a typed read whose wrong bytes are the allocator's guard (0xa5) or poison (0xdd) value: the crate read behind the end
    /// of a chunk, outside the allocation (C02); leaves that end where their allocation ends have a red zone right behind
    fn oob_read_c02(&mut self, got: u128, want: u128, size: usize) {
        let (g, w) = (got.to_le_bytes(), want.to_le_bytes());
        let diff: Vec<u8> = (0..size.min(16)).filter(|&i| g[i] != w[i]).map(|i| g[i]).collect();
        if !diff.is_empty() && diff.iter().all(|&b| b == crate::oalloc::GUARD || b == crate::oalloc::POISON) {
            self.v("C02", "out-of-bounds-read(guard bytes in a typed read)", format!("a typed read returned {:#x} where {:#x} was expected; every differing byte is the allocator's guard / poison value", got, want));
        }
    }
    pub fn hard_viol(&self) -> bool {
        self.viols.iter().any(|v| !v.soft)
    }

    pub fn exec(&mut self, code: u8, a: u32, b: u32) {
        if self.root.is_none() {
            return;
        }
        let rest = self.model.rest();
        let rem = self.model.remaining();
        let mat = rest.len(); // materialised prefix of the sequence (all of it unless a leaf has virtual filler)
        let chunk = self.model.first_fragment().min(rem);
        let code = code % 21;
        let code = if digest_mode() && matches!(code, 2 | 12 | 13 | 14) { 0 } else { code };
        // chunk() empty although bytes remain (already recorded by observe() as a C09 observation): everything built on the
        // provided copy loop `while !dst.is_empty() { chunk(); advance(..) }` would spin for ever, so only operations that do
        // not loop are still executed - they show what the same state does to the one-byte typed reads (C10)
        if self.viols.iter().any(|v| v.soft) {
            let one_byte_read = matches!(code, 6 | 7) && GETTERS[(a as usize) % GETTERS.len()].size == 1;
            if !(one_byte_read || matches!(code, 0 | 1 | 8 | 9 | 10 | 16 | 17)) {
                return;
            }
        }
        self.st.ops[code as usize] += 1;
        self.mix(code as u64);
        match code {
            0 => {}
            1 => {
                let n = sel_n(a, chunk, rem);
                btr!(self, "advance({}) [remaining {} first fragment {}]", n, rem, chunk);
                let root = self.root.as_mut().unwrap();
                let r = catch_unwind(AssertUnwindSafe(|| root.advance(n)));
                self.consumed(n, rem, chunk, r.is_err(), "advance");
            }
            2 => {
                #[cfg(feature = "bstd")]
                {
                    let k = [0usize, 1, 2, 3, 16, 17, 20, 5][(a % 8) as usize];
                    btr!(self, "chunks_vectored(dst.len() = {})", k);
                    static SENT: [u8; 3] = [0xEE, 0xEE, 0xEE];
                    let root = self.root.as_ref().unwrap();
                    let mut dst: Vec<std::io::IoSlice> = (0..k).map(|_| std::io::IoSlice::new(&SENT)).collect();
                    let r = catch_unwind(AssertUnwindSafe(|| root.chunks_vectored(&mut dst)));
                    match r {
                        Ok(c) => {
                            let mut bad = Vec::new();
                            if c > k {
                                bad.push(("C09", "chunks_vectored-count", format!("returned {} for dst.len() {}", c, k)));
                            } else {
                                let mut cat = Vec::new();
                                let mut nonempty = false;
                                for s in &dst[..c] {
                                    cat.extend_from_slice(s);
                                    nonempty |= !s.is_empty();
                                }
                                self.st.vectored_slices += c as u64;
                                if cat.len() > rem || cat[..] != rest[..cat.len()] {
                                    bad.push(("C09", "chunks_vectored-not-a-prefix", format!("{} slices, {} bytes, not a prefix of the remaining {} bytes", c, cat.len(), rem)));
                                    // more bytes than the view has, through a tree that contains a take(n): the adapter exposes
                                    // bytes beyond min(n, remaining) - also the first clause of C12
                                    if cat.len() > rem && has_take(root) {
                                        bad.push(("C12", "take-exposes-bytes-beyond-its-limit", format!("chunks_vectored handed out {} bytes, the view has {}", cat.len(), rem)));
                                    }
                                }
                                if rem > 0 && k > 0 && !nonempty {
                                    bad.push(("C09", "chunks_vectored-no-non-empty-slice", format!("returned {} slices, none non-empty, {} bytes remain", c, rem)));
                                }
                                for (i, s) in dst[c..].iter().enumerate() {
                                    if s.as_ptr() != SENT.as_ptr() || s.len() != 3 {
                                        bad.push(("C09", "chunks_vectored-touched-dst-beyond-count", format!("dst[{}] was modified, returned count {}", c + i, c)));
                                        break;
                                    }
                                }
                                if c >= 2 {
                                    self.flags.crossed = true;
                                }
                            }
                            for (p, o, d) in bad {
                                self.v(p, o, d);
                            }
                        }
                        Err(_) => self.v("C09", "unexpected-panic", format!("chunks_vectored(dst.len()={}) panicked", k)),
                    }
                }
            }
            3 | 4 => {
                let n = sel_n(a, chunk, rem);
                if n > (1 << 20) || (n <= rem && n > mat) {
                    // a destination of that size cannot be allocated / compared; the shortfall classes rem+1 / chunk+1 cover it
                    return;
                }
                btr!(self, "{}(dst.len() = {}) [remaining {}]", OP_NAMES[code as usize], n, rem);
                let mut dst = vec![0xCCu8; n];
                let root = self.root.as_mut().unwrap();
                if code == 3 {
                    let r = catch_unwind(AssertUnwindSafe(|| root.copy_to_slice(&mut dst)));
                    if r.is_ok() && n <= rem && dst[..] != rest[..n] {
                        self.v("C09", "copy_to_slice-bytes", format!("copied {:02x?}, next bytes are {:02x?}", &dst[..n.min(12)], &rest[..n.min(12)]));
                        self.adapter_bytes_c12("copy_to_slice-bytes");
                    }
                    self.consumed(n, rem, chunk, r.is_err(), "copy_to_slice");
                } else {
                    let r = catch_unwind(AssertUnwindSafe(|| root.try_copy_to_slice(&mut dst)));
                    match r {
                        Ok(Ok(())) => {
                            if n <= rem && dst[..] != rest[..n] {
                                self.v("C09", "try_copy_to_slice-bytes", format!("copied {:02x?}, next bytes are {:02x?}", &dst[..n.min(12)], &rest[..n.min(12)]));
                        self.adapter_bytes_c12("try_copy_to_slice-bytes");
                            }
                            self.consumed(n, rem, chunk, false, "try_copy_to_slice");
                        }
                        Ok(Err(e)) => {
                            if n <= rem {
                                self.v("C09", "try_copy_to_slice-err-with-enough-bytes", format!("Err({:?}) with {} remaining for {}", e, rem, n));
                            } else if e.requested != n || e.available != rem {
                                self.v("C10", "TryGetError-fields", format!("{:?}, expected requested {} available {}", e, n, rem));
                            }
                            self.flags.shortfall = true;
                        }
                        Err(_) => self.v("C09", "unexpected-panic", "try_copy_to_slice panicked".to_string()),
                    }
                }
            }
            5 => {
                let n = sel_n(a, chunk, rem);
                if n <= rem && (n > (1 << 20) || n > mat) {
                    return;
                }
                btr!(self, "copy_to_bytes({}) [remaining {}]", n, rem);
                let root = self.root.as_mut().unwrap();
                let r = catch_unwind(AssertUnwindSafe(|| root.copy_to_bytes(n)));
                match r {
                    Ok(bts) => {
                        if digest_mode() {
                            // whether the result shares storage with the tree (zero-copy through every forwarding layer) is a return
                            // value of a later call (is_unique / try_into_mut / try_reclaim): it must not depend on the configuration
                            let shared = !bts.is_unique();
                            self.mix(0xC0B0 ^ shared as u64);
                        }
                        if n <= rem && bts[..] != rest[..n] {
                            self.v("C09", "copy_to_bytes-bytes", format!("returned {:02x?} (len {}), next bytes are {:02x?}", &bts[..bts.len().min(12)], bts.len(), &rest[..n.min(12)]));
                        self.adapter_bytes_c12("copy_to_bytes-bytes");
                        }
                        self.consumed(n, rem, chunk, false, "copy_to_bytes");
                    }
                    Err(_) => self.consumed(n, rem, chunk, true, "copy_to_bytes"),
                }
            }
            6 | 7 => {
                let gi = (a as usize) % GETTERS.len();
                let g = &GETTERS[gi];
                let nb = (b % 9) as usize;
                let size = if g.size == 0 { nb } else { g.size };
                btr!(self, "{}get_{}({}) [remaining {}]", if code == 7 { "try_" } else { "" }, g.name, if g.size == 0 { nb.to_string() } else { String::new() }, rem);
                let root = self.root.as_mut().unwrap();
                if code == 6 {
                    self.st.getters[gi] += 1;
                    let r = catch_unwind(AssertUnwindSafe(|| (g.get)(root, nb)));
                    match r {
                        Ok(v) => {
                            if size <= rem {
                                let want = decode(g, &rest, nb);
                                if v != want {
                                    self.v("C10", "decoded-value", format!("get_{}: got {:#x}, bytes {:02x?} decode to {:#x}", g.name, v, &rest[..size], want));
                                    self.oob_read_c02(v, want, size);
                                }
                                self.note_typed(size, chunk, g.signed && size > 0 && rest[if g.endian == 0 { 0 } else { size - 1 }] & 0x80 != 0);
                            }
                            self.consumed_p(size, rem, chunk, false, "get_X", "C10");
                        }
                        Err(_) => self.consumed_p(size, rem, chunk, true, "get_X", "C10"),
                    }
                } else {
                    self.st.try_getters[gi] += 1;
                    let r = catch_unwind(AssertUnwindSafe(|| (g.try_get)(root, nb)));
                    match r {
                        Ok(Ok(v)) => {
                            if size <= rem {
                                let want = decode(g, &rest, nb);
                                if v != want {
                                    self.v("C10", "decoded-value", format!("try_get_{}: got {:#x}, bytes {:02x?} decode to {:#x}", g.name, v, &rest[..size], want));
                                    self.oob_read_c02(v, want, size);
                                }
                                self.note_typed(size, chunk, g.signed && size > 0 && rest[if g.endian == 0 { 0 } else { size - 1 }] & 0x80 != 0);
                                self.consumed_p(size, rem, chunk, false, "try_get_X", "C10");
                            } else {
                                self.v("C10", "try_get-ok-on-shortfall", format!("try_get_{} returned Ok with {} bytes remaining", g.name, rem));
                            }
                        }
                        Ok(Err((req, avail))) => {
                            if size <= rem {
                                self.v("C10", "try_get-err-with-enough-bytes", format!("try_get_{}: Err with {} remaining", g.name, rem));
                            } else {
                                if req != size || avail != rem {
                                    self.v("C10", "TryGetError-fields", format!("try_get_{}: requested {} available {}, expected {} / {}", g.name, req, avail, size, rem));
                                }
                                self.flags.shortfall = true;
                                self.st.classes[7] += 1;
                                // "Err{..} leaving the cursor untouched": the model is left as is; the tree must still stand where it stood
                                let root = self.root.as_ref().unwrap();
                                let now = catch_unwind(AssertUnwindSafe(|| (root.remaining(), root.chunk().first().copied()))).ok();
                                if now != Some((rem, rest.first().copied())) {
                                    self.v("C10", "try_get-err-moved-the-cursor", format!("try_get_{} returned Err with {} bytes remaining; afterwards remaining() / first byte = {:?}", g.name, rem, now));
                                }
                            }
                        }
                        Err(_) => self.v("C10", "try_get-panicked", format!("try_get_{} panicked ({} remaining)", g.name, rem)),
                    }
                }
            }
            8 => {
                let l = sel_limit(a, chunk, rem);
                btr!(self, "self = self.take({})", l);
                let root = self.root.take().unwrap();
                self.root = Some(Node::Take(Buf::take(Box::new(root), l)));
                let m = std::mem::replace(&mut self.model, MNode::Leaf { rest: vec![], extra: 0, chunk_cap: usize::MAX });
                self.model = MNode::Take(Box::new(m), l);
                if l > 0 && l < chunk {
                    self.flags.take_inside_chunk = true;
                }
            }
            9 | 10 => {
                let n = (b % 7) as usize;
                let data: Vec<u8> = (0..n).map(|i| 0x90 + ((a as usize + i) % 64) as u8).collect();
                let (leaf, logical) = build_leaf((a % NKINDS as u32) as u8, &data, (b / 7) as u8, &mut self.arena);
                btr!(self, "self = chain({}) with a {}-byte {} leaf", if code == 9 { "self, leaf" } else { "leaf, self" }, logical.0.len(), KIND_NAMES[(a % NKINDS as u32) as usize]);
                let root = self.root.take().unwrap();
                let m = std::mem::replace(&mut self.model, MNode::Leaf { rest: vec![], extra: 0, chunk_cap: usize::MAX });
                if code == 9 {
                    self.root = Some(Node::Chain(Buf::chain(Box::new(root), Box::new(leaf))));
                    self.model = MNode::Chain(Box::new(m), Box::new(MNode::Leaf { rest: logical.0, extra: logical.1, chunk_cap: logical.2 }));
                } else {
                    self.root = Some(Node::Chain(Buf::chain(Box::new(leaf), Box::new(root))));
                    self.model = MNode::Chain(Box::new(MNode::Leaf { rest: logical.0, extra: logical.1, chunk_cap: logical.2 }), Box::new(m));
                }
            }
            11 => {
                let l = sel_limit(a, chunk, rem);
                let root = self.root.as_mut().unwrap();
                if let Some(t) = first_take_mut(root) {
                    btr!(self, "first Take .set_limit({})", l);
                    t.set_limit(l);
                    if let Some(ml) = first_take_model(&mut self.model) {
                        *ml = l;
                    }
                }
            }
            #[cfg(feature = "bstd")]
            12 | 13 | 14 => {
                use std::io::{BufRead, Read};
                let root = self.root.take().unwrap();
                let mut rd = Buf::reader(root);
                match code {
                    12 if b % 4 == 2 && rem <= mat => {
                        // Read::read_vectored (std's default fills only the first non-empty buffer; an override may fill more): any count
                        // up to min(total, available) is right as long as it is > 0 when both are, the bytes are the next ones laid
                        // out across the buffers in order, and the inner buffer moved by exactly the count
                        let n = sel_n(a, chunk, rem).min(1 << 11);
                        let cut = if n == 0 { 0 } else { (a as usize / 7 + b as usize) % (n + 1) };
                        btr!(self, "reader().read_vectored([{}, {}]) [remaining {}]", cut, n - cut, rem);
                        let mut d1 = vec![0xCCu8; cut];
                        let mut d2 = vec![0xCCu8; n - cut];
                        let r = catch_unwind(AssertUnwindSafe(|| {
                            let mut bufs = [std::io::IoSliceMut::new(&mut d1), std::io::IoSliceMut::new(&mut d2)];
                            rd.read_vectored(&mut bufs)
                        }));
                        match r {
                            Ok(Ok(got)) => {
                                let flat: Vec<u8> = d1.iter().chain(d2.iter()).copied().collect();
                                if got > n.min(rem) || (got == 0 && n > 0 && rem > 0) {
                                    self.v("C12", "reader-read-count", format!("read_vectored returned {} for buffers of {} bytes with {} available", got, n, rem));
                                } else if flat[..got] != rest[..got] {
                                    self.v("C12", "reader-read-bytes", "read_vectored: wrong bytes delivered".to_string());
                                } else if flat[got..].iter().any(|&x| x != 0xCC) {
                                    self.v("C12", "reader-read-wrote-past-count", "read_vectored: buffers modified beyond the returned count".to_string());
                                } else {
                                    self.model.advance(got);
                                    self.note_span(got, rem, chunk);
                                }
                            }
                            Ok(Err(e)) => self.v("C12", "reader-read-failed", format!("read_vectored: {}", e)),
                            Err(_) => self.v("C12", "reader-read-panicked", format!("read_vectored: buffers {} available {}", n, rem)),
                        }
                    }
                    12 if b % 4 == 3 && rem <= mat => {
                        // Read::read_exact: all or UnexpectedEof (then how much was consumed is unspecified: re-synchronise from get_ref())
                        let n = sel_n(a, chunk, rem).min(1 << 11);
                        btr!(self, "reader().read_exact(dst.len() = {}) [remaining {}]", n, rem);
                        let mut dst = vec![0xCCu8; n];
                        let r = catch_unwind(AssertUnwindSafe(|| rd.read_exact(&mut dst)));
                        match r {
                            Ok(Ok(())) => {
                                if n > rem {
                                    self.v("C12", "reader-read_exact", format!("read_exact of {} bytes succeeded with {} available", n, rem));
                                } else if dst[..] != rest[..n] {
                                    self.v("C12", "reader-read-bytes", "read_exact: wrong bytes delivered".to_string());
                                } else {
                                    self.model.advance(n);
                                    self.note_span(n, rem, chunk);
                                }
                            }
                            Ok(Err(e)) => {
                                let left = catch_unwind(AssertUnwindSafe(|| rd.get_ref().remaining())).unwrap_or(usize::MAX);
                                if n <= rem || e.kind() != std::io::ErrorKind::UnexpectedEof {
                                    self.v("C12", "reader-read-failed", format!("read_exact of {} bytes with {} available: {}", n, rem, e));
                                } else if left > rem {
                                    self.v("C12", "reader-get_ref", format!("after a failed read_exact get_ref().remaining()={} but only {} were there", left, rem));
                                } else {
                                    self.model.advance(rem - left);
                                }
                            }
                            Err(_) => self.v("C12", "reader-read-panicked", format!("read_exact: dst {} available {}", n, rem)),
                        }
                    }
                    12 => {
                        let n = sel_n(a, chunk, rem).min(1 << 11);
                        btr!(self, "reader().read(dst.len() = {}) [remaining {}]", n, rem);
                        let mut dst = vec![0xCCu8; n];
                        let r = catch_unwind(AssertUnwindSafe(|| rd.read(&mut dst)));
                        match r {
                            Ok(Ok(got)) => {
                                let want = n.min(rem);
                                if got != want {
                                    self.v("C12", "reader-read-count", format!("read returned {} for dst {} with {} available", got, n, rem));
                                } else if dst[..got] != rest[..got] {
                                    self.v("C12", "reader-read-bytes", "wrong bytes delivered".to_string());
                                } else if dst[got..].iter().any(|&x| x != 0xCC) {
                                    self.v("C12", "reader-read-wrote-past-count", "dst modified beyond the returned count".to_string());
                                }
                                if got == want {
                                    self.model.advance(got);
                                    self.note_span(got, rem, chunk);
                                }
                            }
                            Ok(Err(e)) => self.v("C12", "reader-read-failed", format!("{}", e)),
                            Err(_) => self.v("C12", "reader-read-panicked", format!("dst {} available {}", n, rem)),
                        }
                    }
                    13 => {
                        let r = catch_unwind(AssertUnwindSafe(|| rd.fill_buf().map(|s| s.to_vec())));
                        match r {
                            Ok(Ok(buf)) => {
                                if buf.len() > rem || buf[..] != rest[..buf.len()] || (buf.is_empty() && rem > 0) {
                                    self.v("C12", "reader-fill_buf", format!("fill_buf returned {} bytes that are not a non-empty prefix of the {} remaining", buf.len(), rem));
                                } else {
                                    let n = sel_n(a, buf.len(), buf.len()).min(buf.len());
                                    btr!(self, "reader().fill_buf() -> {} bytes; consume({})", buf.len(), n);
                                    let r2 = catch_unwind(AssertUnwindSafe(|| rd.consume(n)));
                                    if r2.is_err() {
                                        self.v("C12", "reader-consume-panicked", format!("consume({}) within the filled buffer", n));
                                    } else {
                                        self.model.advance(n);
                                    }
                                }
                            }
                            _ => self.v("C12", "reader-fill_buf-failed", "error or panic".to_string()),
                        }
                    }
                    _ if rem > (1 << 16) || rem > mat => {}
                    _ => {
                        btr!(self, "reader().read_to_end() [remaining {}]", rem);
                        let mut out = Vec::new();
                        let r = catch_unwind(AssertUnwindSafe(|| rd.read_to_end(&mut out)));
                        match r {
                            Ok(Ok(n)) => {
                                if n != rem || out != rest {
                                    self.v("C12", "reader-read_to_end", format!("delivered {} bytes, {} were available", n, rem));
                                } else {
                                    self.model.advance(rem);
                                    self.note_span(rem, rem, chunk);
                                }
                            }
                            _ => self.v("C12", "reader-read_to_end-failed", "error or panic".to_string()),
                        }
                    }
                }
                // get_ref must show the inner buffer advanced by what went through
                if rd.get_ref().remaining() != self.model.remaining() && self.viols.is_empty() {
                    self.v("C12", "reader-get_ref", format!("get_ref().remaining()={} model {}", rd.get_ref().remaining(), self.model.remaining()));
                }
                self.root = Some(rd.into_inner());
            }
            15 if rem > (1 << 16) || rem > mat => {}
            15 => {
                btr!(self, "into_iter().collect() [remaining {}]", rem);
                let root = self.root.take().unwrap();
                let r = catch_unwind(AssertUnwindSafe(|| {
                    let it = bytes::buf::IntoIter::new(root);
                    let hint = it.size_hint();
                    // collect, or one of the other consuming Iterator methods (std implements them on next(); an override would not)
                    let v: Vec<u8> = match b % 5 {
                        1 => {
                            let n = it.count();
                            if n == rest.len() { rest.to_vec() } else { vec![0xEE; n.min(4096)] }
                        }
                        2 => {
                            let l = it.last();
                            if l == rest.last().copied() { rest.to_vec() } else { l.into_iter().collect() }
                        }
                        3 => it.fold(Vec::new(), |mut acc, x| {
                            acc.push(x);
                            acc
                        }),
                        4 => {
                            let st = (a as usize % 5) + 1;
                            let got: Vec<u8> = it.step_by(st).collect();
                            if got == rest.iter().copied().step_by(st).collect::<Vec<u8>>() { rest.to_vec() } else { got }
                        }
                        _ => it.collect(),
                    };
                    (hint, v)
                }));
                match r {
                    Ok((hint, v)) => {
                        if v != rest {
                            self.v("C09", "into_iter-items", format!("iterator yielded {} bytes, sequence has {}", v.len(), rem));
                        }
                        if hint != (rem, Some(rem)) {
                            self.v("C09", "into_iter-size_hint", format!("{:?} for {} remaining bytes", hint, rem));
                        }
                        self.note_span(rem, rem, chunk);
                    }
                    Err(_) => self.v("C09", "unexpected-panic", "into_iter().collect() panicked".to_string()),
                }
                self.ended = true;
            }
            16 => {
                btr!(self, "self = &mut self");
                let root = self.root.take().unwrap();
                self.root = Some(Node::MutRef(MRef::new(root)));
                let m = std::mem::replace(&mut self.model, MNode::Leaf { rest: vec![], extra: 0, chunk_cap: usize::MAX });
                self.model = MNode::Wrap(Box::new(m));
            }
            17 => {
                btr!(self, "self = Box::new(self)");
                let root = self.root.take().unwrap();
                self.root = Some(Node::Boxed(Box::new(root)));
                let m = std::mem::replace(&mut self.model, MNode::Leaf { rest: vec![], extra: 0, chunk_cap: usize::MAX });
                self.model = MNode::Wrap(Box::new(m));
            }
            18 if b % 3 == 2 && rem <= 4096 && mat >= rem => {
                // nth past the end (what skip(n) / step_by do on a short sequence): None, and - like std's default nth - everything consumed
                let n = rem + (a as usize % 3);
                btr!(self, "into_iter().nth({}) with {} bytes left, then into_inner()", n, rem);
                let root = self.root.take().unwrap();
                let mut it = bytes::buf::IntoIter::new(root);
                let r = catch_unwind(AssertUnwindSafe(|| (it.nth(n), it.size_hint(), it.next())));
                match r {
                    Ok((x, hint, again)) => {
                        if x.is_some() || again.is_some() || hint != (0, Some(0)) {
                            self.v("C09", "into_iter-nth-past-the-end", format!("nth({}) on {} bytes returned {:?}, then size_hint {:?} and next() {:?}", n, rem, x, hint, again));
                        }
                        self.model.advance(rem);
                        self.note_span(rem, rem, chunk);
                    }
                    Err(_) => self.v("C09", "unexpected-panic", "IntoIter::nth panicked".to_string()),
                }
                self.root = Some(it.into_inner());
            }
            18 => {
                let k = sel_n(a, chunk, rem).min(rem).min(2048);
                btr!(self, "into_iter(): take {} items, then into_inner()", k);
                let root = self.root.take().unwrap();
                let mut it = bytes::buf::IntoIter::new(root);
                let r = catch_unwind(AssertUnwindSafe(|| {
                    let mut v = Vec::new();
                    if b % 3 == 1 && k >= 1 {
                        // the same through nth (which skip / step_by use): k-1 items skipped, the k-th returned
                        for _ in 0..(k - 1).min(3) {
                            v.extend(it.next());
                        }
                        let skipped = k - 1 - (k - 1).min(3);
                        let x = it.nth(skipped);
                        v.extend_from_slice(&rest[v.len()..v.len() + skipped]); // (the skipped items are not seen; the returned one is)
                        v.extend(x);
                    } else {
                        for _ in 0..k {
                            match it.next() {
                                Some(b) => v.push(b),
                                None => break,
                            }
                        }
                    }
                    (v, it.size_hint())
                }));
                match r {
                    Ok((v, hint)) => {
                        if v[..] != rest[..k] {
                            self.v("C09", "into_iter-items", format!("first {} items {:02x?} differ from the sequence", k, &v[..v.len().min(12)]));
                        } else {
                            self.model.advance(k);
                            self.note_span(k, rem, chunk);
                        }
                        // (expected from the model after the advance: sums near usize::MAX saturate)
                        let after = self.model.remaining();
                        if self.viols.is_empty() && hint != (after, Some(after)) {
                            self.v("C09", "into_iter-size_hint", format!("{:?} with {} bytes left", hint, after));
                        }
                    }
                    Err(_) => self.v("C09", "unexpected-panic", "IntoIter::next panicked".to_string()),
                }
                self.root = Some(it.into_inner());
            }
            19 | 20 => {
                // reach into the outermost adapter (get_mut / first_mut / last_mut) and advance an inner buffer directly: the
                // adapter must go on exposing min(n, remaining) of whatever its inner buffer now is (C12)
                fn go(node: &mut Node, m: &mut MNode, a: u32, b: u32) -> Option<(String, bool)> {
                    match (node, m) {
                        (Node::Boxed(bx), MNode::Wrap(mi)) => go(&mut **bx, mi, a, b),
                        (Node::MutRef(r), MNode::Wrap(mi)) => go(r.inner_mut(), mi, a, b),
                        (Node::Take(t), MNode::Take(mi, _)) => {
                            let n = (a as usize) % (mi.remaining().min(40) + 1);
                            let r = catch_unwind(AssertUnwindSafe(|| t.get_mut().advance(n)));
                            mi.advance(n);
                            Some((format!("Take::get_mut().advance({})", n), r.is_err()))
                        }
                        (Node::Chain(c), MNode::Chain(ma, mb)) => {
                            let (mi, first) = if b % 2 == 0 { (ma, true) } else { (mb, false) };
                            let n = (a as usize) % (mi.remaining().min(40) + 1);
                            let r = catch_unwind(AssertUnwindSafe(|| if first { c.first_mut().advance(n) } else { c.last_mut().advance(n) }));
                            mi.advance(n);
                            Some((format!("Chain::{}_mut().advance({})", if first { "first" } else { "last" }, n), r.is_err()))
                        }
                        _ => None,
                    }
                }
                let root = self.root.as_mut().unwrap();
                if let Some((what, panicked)) = go(root, &mut self.model, a, b) {
                    btr!(self, "{}", what);
                    self.st.inner_direct += 1;
                    if panicked {
                        self.v("C09", "unexpected-panic", format!("{} panicked although the inner buffer has that many bytes", what));
                        self.ended = true;
                    }
                }
            }
            _ => {}
        }
        if !self.ended {
            self.observe();
        }
    }

    fn note_span(&mut self, n: usize, rem: usize, chunk: usize) {
        if n > chunk && chunk > 0 {
            self.flags.crossed = true;
            self.st.classes[4] += 1;
        }
        if n > 0 && (n == rem || n == chunk) {
            self.flags.limit_edge = true;
            self.st.classes[5] += 1;
        }
    }
    fn note_typed(&mut self, size: usize, chunk: usize, neg: bool) {
        if size > chunk && chunk > 0 {
            self.flags.straddle = true;
            self.st.classes[6] += 1;
        }
        if neg {
            self.flags.signed_neg = true;
        }
    }

    fn consumed(&mut self, n: usize, rem: usize, chunk: usize, panicked: bool, what: &'static str) {
        self.consumed_p(n, rem, chunk, panicked, what, "C09")
    }
    /// common handling of a consuming op: n <= rem must succeed and consume n; n > rem must panic
    fn consumed_p(&mut self, n: usize, rem: usize, chunk: usize, panicked: bool, what: &'static str, prop: &'static str) {
        self.mix((n as u64).wrapping_mul(2) | panicked as u64);
        if n <= rem {
            if panicked {
                self.v(prop, "unexpected-panic", format!("{}({}) panicked with {} bytes remaining", what, n, rem));
                self.ended = true;
            } else {
                self.model.advance(n);
                self.note_span(n, rem, chunk);
            }
        } else {
            self.flags.shortfall = true;
            self.flags.limit_edge = true;
            self.st.classes[7] += 1;
            if !panicked {
                self.v(prop, "no-panic-past-the-end", format!("{}({}) returned normally with only {} bytes remaining", what, n, rem));
            } else {
                self.st.panics += 1;
                btr!(self, "    -> panicked (expected)");
                if digest_mode() {
                    // no statement says what the buffer looks like after a contract panic, but whatever it is, it must be the
                    // same in every configuration (C16): fold remaining() and the start of chunk() into the digest
                    if let Some(root) = self.root.as_ref() {
                        let obs = catch_unwind(AssertUnwindSafe(|| {
                            let ch = root.chunk();
                            let mut h = root.remaining() as u64 ^ ((ch.len() as u64) << 32);
                            for &b in ch.iter().take(16) {
                                h = h.wrapping_mul(131).wrapping_add(b as u64);
                            }
                            h
                        }))
                        .unwrap_or(0xDEAD);
                        self.mix(obs);
                    }
                }
            }
            // the state after a contract panic is unspecified: the case ends here
            self.ended = true;
        }
    }

    /// dismantle the tree with into_inner() and compare every leaf with the model
    pub fn finish(&mut self) {
        if let Some(root) = self.root.take() {
            let mut bad = Vec::new();
            dismantle(root, &self.model, &mut bad);
            for (p, o, d) in bad {
                self.v(p, o, d);
            }
        }
    }
}

fn first_take_mut(n: &mut Node) -> Option<&mut bytes::buf::Take<Box<Node>>> {
    match n {
        Node::Take(t) => Some(t),
        Node::Boxed(b) => first_take_mut(&mut **b),
        Node::MutRef(m) => first_take_mut(m.inner_mut()),
        Node::Chain(c) => {
            // probe immutably first to decide the side
            if has_take(c.first_ref()) {
                first_take_mut(&mut **c.first_mut())
            } else {
                first_take_mut(&mut **c.last_mut())
            }
        }
        _ => None,
    }
}
fn has_chain(n: &Node) -> bool {
    match n {
        Node::Chain(_) => true,
        Node::Take(t) => has_chain(t.get_ref()),
        Node::Boxed(b) => has_chain(b),
        Node::MutRef(m) => has_chain(m.inner()),
        _ => false,
    }
}
fn has_take(n: &Node) -> bool {
    match n {
        Node::Take(_) => true,
        Node::Boxed(b) => has_take(b),
        Node::MutRef(m) => has_take(m.inner()),
        Node::Chain(c) => has_take(c.first_ref()) || has_take(c.last_ref()),
        _ => false,
    }
}
fn model_has_take(m: &MNode) -> bool {
    match m {
        MNode::Take(..) => true,
        MNode::Wrap(i) => model_has_take(i),
        MNode::Chain(a, b) => model_has_take(a) || model_has_take(b),
        _ => false,
    }
}
fn first_take_model(m: &mut MNode) -> Option<&mut usize> {
    match m {
        MNode::Take(_, l) => Some(l),
        MNode::Wrap(i) => first_take_model(i),
        MNode::Chain(a, b) => {
            if model_has_take(a) {
                first_take_model(a)
            } else {
                first_take_model(b)
            }
        }
        _ => None,
    }
}

type Bad = Vec<(&'static str, &'static str, String)>;

fn walk_struct(n: &Node, m: &MNode, path: &mut String, bad: &mut Bad, st: &mut BStats, fl: &mut BFlags) {
    // every sub-tree is itself a Buf: its remaining() and chunk() must agree with the model's sub-tree
    let rest = m.rest();
    let nrem = match catch_unwind(AssertUnwindSafe(|| n.remaining())) {
        Ok(r) => r,
        Err(_) => {
            bad.push(("C12", "inner-buffer-remaining", format!("at {}: remaining() panicked", if path.is_empty() { "root" } else { path.as_str() })));
            return;
        }
    };
    if nrem != m.remaining() {
        bad.push(("C12", "inner-buffer-remaining", format!("at {}: remaining()={} model {}", if path.is_empty() { "root" } else { path.as_str() }, nrem, m.remaining())));
        return;
    }
    let ch = n.chunk();
    if ch.len() > rest.len() || ch != &rest[..ch.len()] {
        bad.push(("C12", "inner-buffer-contents", format!("at {}: chunk() is not a prefix of the model's remaining bytes", if path.is_empty() { "root" } else { path.as_str() })));
        return;
    }
    match (n, m) {
        (Node::Take(t), MNode::Take(mi, ml)) => {
            if t.limit() != *ml {
                bad.push(("C12", "take-limit", format!("at {}: limit()={} model {}", path, t.limit(), ml)));
            }
            let l = path.len();
            path.push_str(".take");
            walk_struct(t.get_ref(), mi, path, bad, st, fl);
            path.truncate(l);
        }
        (Node::Chain(c), MNode::Chain(ma, mb)) => {
            let l = path.len();
            path.push_str(".a");
            walk_struct(c.first_ref(), ma, path, bad, st, fl);
            path.truncate(l);
            path.push_str(".b");
            walk_struct(c.last_ref(), mb, path, bad, st, fl);
            path.truncate(l);
        }
        (Node::MutRef(r), MNode::Wrap(mi)) => walk_struct(r.inner(), mi, path, bad, st, fl),
        (Node::Boxed(b), MNode::Wrap(mi)) => walk_struct(b, mi, path, bad, st, fl),
        (Node::Deque(d), MNode::Leaf { .. }) => {
            let (a, b) = d.as_slices();
            if !a.is_empty() && !b.is_empty() {
                fl.deque_two = true;
                st.classes[0] += 1;
            }
        }
        (_, MNode::Leaf { .. }) => {}
        _ => bad.push(("C12", "tree-shape", format!("at {}: node and model shapes differ", path))),
    }
}

fn drain(mut n: Node) -> Vec<u8> {
    let mut out = Vec::new();
    let mut guard = 0;
    while n.has_remaining() && guard < 1_000_000 {
        let c = n.chunk();
        if c.is_empty() {
            break;
        }
        let l = c.len();
        out.extend_from_slice(c);
        n.advance(l);
        guard += 1;
    }
    out
}

fn dismantle(n: Node, m: &MNode, bad: &mut Bad) {
    match (n, m) {
        (Node::Take(t), MNode::Take(mi, ml)) => {
            if t.limit() != *ml {
                bad.push(("C12", "take-limit-at-end", format!("limit()={} model {}", t.limit(), ml)));
            }
            dismantle(*t.into_inner(), mi, bad);
        }
        (Node::Chain(c), MNode::Chain(ma, mb)) => {
            let (a, b) = c.into_inner();
            dismantle(*a, ma, bad);
            dismantle(*b, mb, bad);
        }
        (Node::MutRef(r), MNode::Wrap(mi)) => dismantle(r.into_inner(), mi, bad),
        (Node::Boxed(b), MNode::Wrap(mi)) => dismantle(*b, mi, bad),
        (leaf, MNode::Leaf { extra, .. }) if *extra > 0 => {
            if leaf.remaining() != m.remaining() {
                bad.push(("C12", "into_inner-leaf-state", format!("endless leaf reports {} remaining, model says {}", leaf.remaining(), m.remaining())));
            }
        }
        (leaf, MNode::Leaf { rest, .. }) => {
            let r = catch_unwind(AssertUnwindSafe(|| drain(leaf)));
            match r {
                Ok(got) => {
                    if &got != rest {
                        bad.push(("C12", "into_inner-leaf-state", format!("leaf holds {} bytes after the run, model says {}", got.len(), rest.len())));
                    }
                }
                Err(_) => bad.push(("C12", "into_inner-leaf-state", "draining the leaf panicked".to_string())),
            }
        }
        _ => bad.push(("C12", "tree-shape", "node and model shapes differ at into_inner".to_string())),
    }
}
