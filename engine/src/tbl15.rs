//! C15: Debug output parses back as a Rust byte-string literal, hex output is exact, serde
//! round-trips through every visitor entry point.

use crate::tbl::{bytes_reps, mut_reps, TCol};
use crate::util::{self, fnv64, Args};
use bytes::{Bytes, BytesMut};
use proptest::prelude::*;
use proptest::test_runner::{Config, RngAlgorithm, RngSeed, TestCaseError, TestError, TestRng, TestRunner};
use serde_json::{json, Value};

/// Parser for the Rust reference's BYTE_STRING_LITERAL grammar (not for today's output):
///   b" ( ASCII_FOR_STRING | BYTE_ESCAPE | STRING_CONTINUE )* "
///   ASCII_FOR_STRING: any ASCII (0x00..=0x7F) except `"`, `\` and an isolated CR
///   BYTE_ESCAPE: \xHH | \n | \r | \t | \\ | \0 | \' | \"
///   STRING_CONTINUE: `\` followed by LF (then following whitespace is skipped)
pub fn parse_byte_string_literal(s: &str) -> Result<Vec<u8>, String> {
    let b = s.as_bytes();
    if b.len() < 3 || b[0] != b'b' || b[1] != b'"' {
        return Err("does not start with b\"".into());
    }
    let mut out = Vec::new();
    let mut i = 2;
    loop {
        if i >= b.len() {
            return Err("unterminated literal".into());
        }
        let c = b[i];
        match c {
            b'"' => {
                if i + 1 != b.len() {
                    return Err(format!("closing quote at {} is not the last character", i));
                }
                return Ok(out);
            }
            b'\\' => {
                let e = *b.get(i + 1).ok_or("dangling backslash")?;
                match e {
                    b'n' => out.push(b'\n'),
                    b'r' => out.push(b'\r'),
                    b't' => out.push(b'\t'),
                    b'\\' => out.push(b'\\'),
                    b'0' => out.push(0),
                    b'\'' => out.push(b'\''),
                    b'"' => out.push(b'"'),
                    b'x' => {
                        let h = b.get(i + 2..i + 4).ok_or("\\x needs two hex digits")?;
                        let hv = |d: u8| -> Result<u8, String> {
                            match d {
                                b'0'..=b'9' => Ok(d - b'0'),
                                b'a'..=b'f' => Ok(d - b'a' + 10),
                                b'A'..=b'F' => Ok(d - b'A' + 10),
                                _ => Err(format!("bad hex digit {:?} in \\x escape", d as char)),
                            }
                        };
                        out.push(hv(h[0])? * 16 + hv(h[1])?);
                        i += 2;
                    }
                    b'\n' => {
                        // string continuation: skip following whitespace
                        i += 2;
                        while i < b.len() && matches!(b[i], b' ' | b'\t' | b'\n' | b'\r') {
                            i += 1;
                        }
                        continue;
                    }
                    _ => return Err(format!("unknown escape \\{}", e as char)),
                }
                i += 2;
            }
            b'\r' => {
                if b.get(i + 1) == Some(&b'\n') {
                    out.push(b'\n'); // CRLF is normalised to LF by the lexer
                    i += 2;
                } else {
                    return Err("isolated CR".into());
                }
            }
            0x80..=0xff => return Err(format!("non-ASCII byte {:#x} in literal", c)),
            _ => {
                out.push(c);
                i += 1;
            }
        }
    }
}

fn check_hex(s: &str, want: &[u8], upper: bool) -> Result<(), String> {
    if s.len() != want.len() * 2 {
        return Err(format!("length {} for {} bytes", s.len(), want.len()));
    }
    for (i, w) in want.iter().enumerate() {
        let d = &s[2 * i..2 * i + 2];
        for ch in d.chars() {
            let ok = ch.is_ascii_digit() || if upper { ('A'..='F').contains(&ch) } else { ('a'..='f').contains(&ch) };
            if !ok {
                return Err(format!("digit {:?} has the wrong alphabet/case", ch));
            }
        }
        if u8::from_str_radix(d, 16).ok() != Some(*w) {
            return Err(format!("pair {} is {:?}, byte is {:#04x}", i, d, w));
        }
    }
    Ok(())
}

fn fmt_checks(col: &mut TCol, x: &[u8], all_reps: bool) {
    let replay = json!({"engine": "tbl", "kind": "fmt", "x": x});
    let mut strs: Vec<(&'static str, String, String, String, String)> = Vec::new();
    if all_reps {
        for (n, b) in bytes_reps(x) {
            strs.push((n, format!("{:?}", b), format!("{:#?}", b), format!("{:x}", b), format!("{:X}", b)));
        }
        for (n, b) in mut_reps(x) {
            strs.push((n, format!("{:?}", b), format!("{:#?}", b), format!("{:x}", b), format!("{:X}", b)));
        }
    } else {
        let b = Bytes::copy_from_slice(x);
        strs.push(("Bytes", format!("{:?}", b), format!("{:#?}", b), format!("{:x}", b), format!("{:X}", b)));
        let b = BytesMut::from(x);
        strs.push(("BytesMut", format!("{:?}", b), format!("{:#?}", b), format!("{:x}", b), format!("{:X}", b)));
    }
    // "always": the caller's width / precision / fill / sign flags must not change what the literal decodes to
    {
        let b = Bytes::copy_from_slice(x);
        let m = BytesMut::from(x);
        #[derive(Debug)]
        #[allow(dead_code)]
        struct Holder {
            key: Bytes,
        }
        let flagged: Vec<(&'static str, String)> = vec![
            ("{:4?}", format!("{:4?}", b)),
            ("{:<12?}", format!("{:<12?}", m)),
            ("{:>3?}", format!("{:>3?}", b)),
            ("{:*^9?}", format!("{:*^9?}", m)),
            ("{:.0?}", format!("{:.0?}", b)),
            ("{:.2?}", format!("{:.2?}", m)),
            ("{:08.1?}", format!("{:08.1?}", b)),
            ("{:+?}", format!("{:+?}", m)),
            ("{:#10.3?}", format!("{:#10.3?}", b)),
        ];
        for (spec, s) in flagged {
            col.evals += 1;
            *col.per_impl.entry(format!("Debug with flags {}", spec)).or_insert(0) += 1;
            match parse_byte_string_literal(&s) {
                Ok(v) if v == x => {}
                Ok(v) => col.viol("C15", "debug-decodes-to-other-bytes", "Bytes/BytesMut", spec, format!("{:02x?} printed with {} as {} which decodes to {:02x?}", x, spec, s, v), replay.clone()),
                Err(e) => col.viol("C15", "debug-not-a-byte-string-literal", "Bytes/BytesMut", spec, format!("{:02x?} printed with {} as {}: {}", x, spec, s, e), replay.clone()),
            }
        }
        // a derived Debug hands the caller's spec down to the field
        let h = format!("{:.0?}", Holder { key: b.clone() });
        col.evals += 1;
        if let (Some(a), Some(z)) = (h.find("b\""), h.rfind('"')) {
            if z > a {
                match parse_byte_string_literal(&h[a..=z]) {
                    Ok(v) if v == x => {}
                    _ => col.viol("C15", "debug-decodes-to-other-bytes", "Bytes field in derived Debug", "{:.0?}", format!("{:02x?} printed as {}", x, h), replay.clone()),
                }
            }
        }
    }
    for (n, d, da, lx, ux) in strs {
        col.evals += 4;
        for (which, s) in [("Debug", &d), ("Debug-alternate", &da)] {
            match parse_byte_string_literal(s) {
                Ok(v) if v == x => {}
                Ok(v) => col.viol("C15", "debug-decodes-to-other-bytes", n, which, format!("{:02x?} printed as {} which decodes to {:02x?}", x, s, v), replay.clone()),
                Err(e) => col.viol("C15", "debug-not-a-byte-string-literal", n, which, format!("{:02x?} printed as {}: {}", x, s, e), replay.clone()),
            }
        }
        if let Err(e) = check_hex(&lx, x, false) {
            col.viol("C15", "lower-hex", n, "{:x}", format!("{:02x?} printed as {}: {}", x, lx, e), replay.clone());
        }
        if let Err(e) = check_hex(&ux, x, true) {
            col.viol("C15", "upper-hex", n, "{:X}", format!("{:02x?} printed as {}: {}", x, ux, e), replay.clone());
        }
    }
}

// ---------------------------------------------------------------------------------------------
// serde

#[cfg(feature = "bserde")]
mod sd {
    use serde::de::value::Error as DeError;
    use serde::de::{DeserializeSeed, Deserializer, IntoDeserializer, SeqAccess, Visitor};
    use serde::forward_to_deserialize_any;

    #[derive(Clone, Copy, Debug, PartialEq)]
    pub enum Mode {
        Bytes,
        BorrowedBytes,
        ByteBuf,
        Seq(Option<usize>),
        Str,
        BorrowedStr,
        String,
    }
    pub const MODES: [(&str, Mode); 10] = [
        ("visit_bytes", Mode::Bytes),
        ("visit_borrowed_bytes", Mode::BorrowedBytes),
        ("visit_byte_buf", Mode::ByteBuf),
        ("visit_seq(hint None)", Mode::Seq(None)),
        ("visit_seq(hint exact)", Mode::Seq(Some(usize::MAX - 1))),
        ("visit_seq(hint 0)", Mode::Seq(Some(0))),
        ("visit_seq(hint huge)", Mode::Seq(Some(usize::MAX))),
        ("visit_str", Mode::Str),
        ("visit_borrowed_str", Mode::BorrowedStr),
        ("visit_string", Mode::String),
    ];

    pub struct D<'de> {
        pub data: &'de [u8],
        pub mode: Mode,
    }
    struct Seq<'de> {
        data: &'de [u8],
        pos: usize,
        hint: Option<usize>,
    }
    impl<'de> SeqAccess<'de> for Seq<'de> {
        type Error = DeError;
        fn next_element_seed<T: DeserializeSeed<'de>>(&mut self, seed: T) -> Result<Option<T::Value>, DeError> {
            if self.pos >= self.data.len() {
                return Ok(None);
            }
            let b = self.data[self.pos];
            self.pos += 1;
            seed.deserialize(b.into_deserializer()).map(Some)
        }
        fn size_hint(&self) -> Option<usize> {
            match self.hint {
                Some(h) if h == usize::MAX - 1 => Some(self.data.len() - self.pos),
                h => h,
            }
        }
    }
    impl<'de> Deserializer<'de> for D<'de> {
        type Error = DeError;
        fn deserialize_any<V: Visitor<'de>>(self, v: V) -> Result<V::Value, DeError> {
            match self.mode {
                Mode::Bytes => {
                    let tmp = self.data.to_vec();
                    v.visit_bytes(&tmp)
                }
                Mode::BorrowedBytes => v.visit_borrowed_bytes(self.data),
                Mode::ByteBuf => v.visit_byte_buf(self.data.to_vec()),
                Mode::Seq(h) => v.visit_seq(Seq { data: self.data, pos: 0, hint: h }),
                Mode::Str => {
                    let tmp = std::str::from_utf8(self.data).unwrap().to_string();
                    v.visit_str(&tmp)
                }
                Mode::BorrowedStr => v.visit_borrowed_str(std::str::from_utf8(self.data).unwrap()),
                Mode::String => v.visit_string(std::str::from_utf8(self.data).unwrap().to_string()),
            }
        }
        forward_to_deserialize_any! {
            bool i8 i16 i32 i64 i128 u8 u16 u32 u64 u128 f32 f64 char str string bytes byte_buf option unit unit_struct
            newtype_struct seq tuple tuple_struct map struct enum identifier ignored_any
        }
    }
}

#[cfg(feature = "bserde")]
fn serde_checks(col: &mut TCol, x: &[u8], with_json: bool) {
    use serde::Deserialize;
    use serde_test::{assert_ser_tokens, Token};
    let replay = json!({"engine": "tbl", "kind": "serde", "x": x});
    let leaked: &'static [u8] = Box::leak(x.to_vec().into_boxed_slice());
    let b = Bytes::copy_from_slice(x);
    let m = BytesMut::from(x);
    col.evals += 2;
    let r = std::panic::catch_unwind(|| {
        assert_ser_tokens(&b, &[Token::Bytes(leaked)]);
        assert_ser_tokens(&m, &[Token::Bytes(leaked)]);
        if x.len() != 2 {
            // (not for the 65536 exhaustive pairs: cost) every representation must serialise the same window
            for (_, rb) in bytes_reps(x) {
                assert_ser_tokens(&rb, &[Token::Bytes(leaked)]);
            }
            for (_, rm) in mut_reps(x) {
                assert_ser_tokens(&rm, &[Token::Bytes(leaked)]);
            }
        }
    });
    if r.is_err() {
        col.viol("C15", "serialize-is-not-serialize_bytes(contents)", "Bytes/BytesMut", "Serializer", format!("{:02x?}", x), replay.clone());
    }
    let utf8 = std::str::from_utf8(x).is_ok();
    for (name, mode) in sd::MODES {
        if matches!(mode, sd::Mode::Str | sd::Mode::BorrowedStr | sd::Mode::String) && !utf8 {
            continue;
        }
        col.evals += 2;
        *col.per_impl.entry(format!("deserialize via {}", name)).or_insert(0) += 2;
        match Bytes::deserialize(sd::D { data: leaked, mode }) {
            Ok(v) if &v[..] == x => {}
            Ok(v) => col.viol("C15", "serde-round-trip", "Bytes", name, format!("{:02x?} came back as {:02x?}", x, &v[..]), replay.clone()),
            Err(e) => col.viol("C15", "serde-round-trip", "Bytes", name, format!("{:02x?}: error {}", x, e), replay.clone()),
        }
        match BytesMut::deserialize(sd::D { data: leaked, mode }) {
            Ok(v) if &v[..] == x => {}
            Ok(v) => col.viol("C15", "serde-round-trip", "BytesMut", name, format!("{:02x?} came back as {:02x?}", x, &v[..]), replay.clone()),
            Err(e) => col.viol("C15", "serde-round-trip", "BytesMut", name, format!("{:02x?}: error {}", x, e), replay.clone()),
        }
    }
    if with_json {
        col.evals += 2;
        let js = serde_json::to_vec(&b).unwrap_or_default();
        let back: Result<Bytes, _> = serde_json::from_slice(&js);
        let back2: Result<BytesMut, _> = serde_json::from_slice(&js);
        let ok = matches!(&back, Ok(v) if &v[..] == x) && matches!(&back2, Ok(v) if &v[..] == x);
        if !ok {
            col.viol("C15", "serde-round-trip", "Bytes/BytesMut", "serde_json", format!("{:02x?} via {}", x, String::from_utf8_lossy(&js)), replay.clone());
        }
    }
}
#[cfg(not(feature = "bserde"))]
fn serde_checks(_col: &mut TCol, _x: &[u8], _j: bool) {}

fn nontrivial15(x: &[u8]) -> bool {
    // a byte that needs escaping next to a byte that could be misread with it
    for w in x.windows(2) {
        let esc = |b: u8| !(0x20..0x7f).contains(&b) || b == b'"' || b == b'\\';
        let risky = |b: u8| b.is_ascii_hexdigit() || b == b'"' || b == b'\\' || b == b'x' || b == b'n';
        if (esc(w[0]) && risky(w[1])) || (risky(w[0]) && esc(w[1])) {
            return true;
        }
    }
    false
}

fn one(col: &mut TCol, x: &[u8], all_reps: bool, json_rt: bool) {
    fmt_checks(col, x, all_reps);
    serde_checks(col, x, json_rt);
    if nontrivial15(x) || (x.len() == 1) {
        col.nontriv.insert(fnv64(x));
    }
}

fn string_strategy() -> BoxedStrategy<Vec<u8>> {
    let risky: Vec<u8> = vec![0, b'0', b'1', b'9', b'a', b'f', b'x', b'n', b'r', b't', b'"', b'\\', b'\'', b'\n', b'\r', b'\t', 0x7f, 0x80, 0xff, 0x1f, 0x20, 0x7e];
    prop_oneof![
        30 => proptest::collection::vec(any::<u8>(), 0..300),
        30 => proptest::collection::vec(proptest::sample::select(risky.clone()), 0..24),
        20 => proptest::collection::vec(0x20u8..0x7f, 0..64),
        // long inputs: buffer-flush boundaries of a formatter, the 4096-element pre-allocation cap of visit_seq
        4 => proptest::collection::vec(proptest::sample::select(risky), 300..1400),
        3 => proptest::collection::vec(any::<u8>(), 4090..4110),
        2 => proptest::collection::vec(any::<u8>(), 8000..9000),
        // long runs of printable bytes (1, 64, 511, 512, 513, 1024, 4096) separated by bytes that need escaping: staging
        // buffers and flush boundaries inside a formatter
        6 => proptest::collection::vec((proptest::sample::select(vec![0usize, 1, 64, 511, 512, 513, 1024, 4096]), proptest::sample::select(vec![0x0au8, 0x00, 0x22, 0x5c, 0xff, 0x7f, 0x09]), 0x21u8..0x7e), 1..5).prop_map(|segs| {
            let mut v = Vec::new();
            for (n, esc, fill) in segs {
                v.push(esc);
                let f = if fill == 0x22 || fill == 0x5c { 0x61 } else { fill };
                v.extend(std::iter::repeat(f).take(n));
            }
            v
        }),
        // valid UTF-8 with multi-byte characters (byte length != char count) for the str / String entry points
        10 => proptest::collection::vec(proptest::sample::select(vec!["a", "\u{e9}", "\u{20ac}", "\u{1f600}", "\"", "\\", "0", "\n"]), 0..40).prop_map(|v| v.concat().into_bytes()),
    ]
    .boxed()
}

pub fn run_c15(args: &Args, col: &mut TCol) {
    let seed = args.u64("seed", 1);
    let worker = args.u64("worker", 0);
    let workers = args.u64("workers", 1);
    let cases = args.u64("cases", 2000);
    if let Some(path) = args.kv.get("replay") {
        let v: Value = serde_json::from_str(&std::fs::read_to_string(path).unwrap_or_default()).unwrap_or(Value::Null);
        let x: Vec<u8> = v["x"].as_array().map(|a| a.iter().map(|b| b.as_u64().unwrap_or(0) as u8).collect()).unwrap_or_default();
        one(col, &x, true, true);
        return;
    }
    // exhaustive: all single bytes (every representation) and all pairs
    if worker == 0 {
        one(col, &[], true, true);
    }
    for a in 0..=255u8 {
        if (a as u64) % workers != worker {
            continue;
        }
        one(col, &[a], true, true);
        for b in 0..=255u8 {
            one(col, &[a, b], false, false);
        }
    }
    col.samples.push(json!({"exhaustive": "every string of length 0, 1 and 2", "example": format!("{:?}", Bytes::from_static(b"\x000\"\\x\xff"))}));
    let mut s = [0u8; 32];
    s[..8].copy_from_slice(&seed.to_le_bytes());
    s[8..16].copy_from_slice(&worker.to_le_bytes());
    s[16] = 15;
    let mut runner = TestRunner::new_with_rng(
        Config { cases: cases as u32, failure_persistence: None, rng_seed: RngSeed::Fixed(seed), max_shrink_iters: 4000, ..Config::default() },
        TestRng::from_seed(RngAlgorithm::ChaCha, &s),
    );
    let cell = std::cell::RefCell::new(&mut *col);
    let res = runner.run(&string_strategy(), |x| {
        let mut c = cell.borrow_mut();
        let before = c.viols.len();
        one(&mut c, &x, true, true);
        if c.samples.len() < 4 && x.len() < 40 {
            c.samples.push(json!({"bytes": x, "debug": format!("{:?}", Bytes::copy_from_slice(&x))}));
        }
        if c.viols.len() > before {
            Err(TestCaseError::fail("c15"))
        } else {
            Ok(())
        }
    });
    drop(cell);
    if let Err(TestError::Fail(_, x)) = res {
        let mut c2 = TCol::new_pub();
        one(&mut c2, &x, true, true);
        for v in c2.viols {
            if let Some(old) = col.viols.iter_mut().find(|o| o["oracle"] == v["oracle"] && o["lhs"] == v["lhs"] && o["rhs"] == v["rhs"]) {
                *old = v;
            } else {
                col.viols.push(v);
            }
        }
    }
    let _ = util::profile_name();
}
