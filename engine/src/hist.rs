//! Engine H: handle histories. Case language, value model, interpreter and the per-step oracles
//! for C01 C02 C03 C04 C07 C08 C13 (and the digest used by the C16 differential).

use crate::oalloc::{self, BState, BlockInfo, VKind, BR_CRATE};
use crate::util::{content, content_byte};
use bytes::{Buf, BufMut, Bytes, BytesMut};

use std::panic::{catch_unwind, AssertUnwindSafe};
use std::sync::atomic::{AtomicUsize, Ordering::*};
use std::sync::Arc;

pub const NSLOT: usize = 6;
/// Largest total size the generators ask the allocator for (see DESIGN §2.2: the band
/// (LIMIT, isize::MAX] is excluded by construction and counted).
pub const LIMIT: usize = 1 << 20;
pub const ARG_TABLE: u32 = 32;
pub const ARG_MAX: u32 = ARG_TABLE + 65536;

#[derive(Clone, Copy, Debug, PartialEq, Eq, Hash, Default)]
pub struct Op {
    pub k: u8,
    pub s: u8,
    pub t: u8,
    pub a: u32,
    pub b: u32,
    pub c: u32,
}

/// Operation kinds.
#[allow(non_upper_case_globals, dead_code)]
pub mod k {
    // constructors
    pub const NewStatic: u8 = 0;
    pub const NewEmpty: u8 = 1;
    pub const NewFromVec: u8 = 2;
    pub const NewFromBox: u8 = 3;
    pub const NewCopy: u8 = 4;
    pub const NewFromString: u8 = 5;
    pub const NewFromOwner: u8 = 6;
    pub const MutWithCap: u8 = 7;
    pub const MutZeroed: u8 = 8;
    pub const MutFromSlice: u8 = 9;
    pub const MutFromIter: u8 = 10;
    pub const MutNew: u8 = 11;
    pub const NewVec: u8 = 12;
    // Bytes
    pub const BClone: u8 = 20;
    pub const BSlice: u8 = 21;
    pub const BSliceRef: u8 = 22;
    pub const BSplitOff: u8 = 23;
    pub const BSplitTo: u8 = 24;
    pub const BTruncate: u8 = 25;
    pub const BClear: u8 = 26;
    pub const BAdvance: u8 = 27;
    pub const BCopyToBytes: u8 = 28;
    pub const BTryIntoMut: u8 = 29;
    pub const BIntoMut: u8 = 30;
    pub const BIntoVec: u8 = 31;
    pub const BDrop: u8 = 32;
    pub const BIntoIter: u8 = 33;
    // BytesMut
    pub const MSplitOff: u8 = 40;
    pub const MSplitTo: u8 = 41;
    pub const MSplit: u8 = 42;
    pub const MTruncate: u8 = 43;
    pub const MClear: u8 = 44;
    pub const MResize: u8 = 45;
    pub const MReserve: u8 = 46;
    pub const MTryReclaim: u8 = 47;
    pub const MExtendSlice: u8 = 48;
    pub const MPutSlice: u8 = 49;
    pub const MPutU8: u8 = 50;
    pub const MPutBytes: u8 = 51;
    pub const MPutBuf: u8 = 52;
    pub const MExtendIter: u8 = 53;
    pub const MWriteStr: u8 = 54;
    pub const MUnsplit: u8 = 55;
    pub const MFreeze: u8 = 56;
    pub const MAdvance: u8 = 57;
    pub const MCopyToBytes: u8 = 58;
    pub const MClone: u8 = 59;
    pub const MIntoVec: u8 = 60;
    pub const MIndexWrite: u8 = 61;
    pub const MFillSpare: u8 = 62;
    pub const MDrop: u8 = 63;
    pub const MExtendBytes: u8 = 64;
    pub const MSoleReclaim: u8 = 65;
    pub const MIntoIter: u8 = 66;
    // Vec
    pub const VIntoBytes: u8 = 70;
    pub const VDrop: u8 = 71;

    pub const ALL: &[u8] = &[
        0, 1, 2, 3, 4, 5, 6, 7, 8, 9, 10, 11, 12, 20, 21, 22, 23, 24, 25, 26, 27, 28, 29, 30, 31, 32, 33, 40, 41, 42,
        43, 44, 45, 46, 47, 48, 49, 50, 51, 52, 53, 54, 55, 56, 57, 58, 59, 60, 61, 62, 63, 64, 65, 66, 70, 71,
    ];
    pub const CTORS: &[u8] = &[0, 1, 2, 3, 4, 5, 6, 7, 8, 9, 10, 11, 12];
    pub const BOPS: &[u8] = &[20, 21, 22, 23, 24, 25, 26, 27, 28, 29, 30, 31, 32, 33];
    pub const MOPS: &[u8] = &[
        40, 41, 42, 43, 44, 45, 46, 47, 48, 49, 50, 51, 52, 53, 54, 55, 56, 57, 58, 59, 60, 61, 62, 63, 64, 65, 66,
    ];

    pub fn name(k: u8) -> &'static str {
        match k {
            0 => "Bytes::from_static",
            1 => "Bytes::new",
            2 => "Bytes::from(Vec)",
            3 => "Bytes::from(Box<[u8]>)",
            4 => "Bytes::copy_from_slice",
            5 => "Bytes::from(String)",
            6 => "Bytes::from_owner",
            7 => "BytesMut::with_capacity",
            8 => "BytesMut::zeroed",
            9 => "BytesMut::from(&[u8])",
            10 => "BytesMut::from_iter",
            11 => "BytesMut::new",
            12 => "Vec::new",
            20 => "Bytes::clone",
            21 => "Bytes::slice",
            22 => "Bytes::slice_ref",
            23 => "Bytes::split_off",
            24 => "Bytes::split_to",
            25 => "Bytes::truncate",
            26 => "Bytes::clear",
            27 => "Bytes::advance",
            28 => "Bytes::copy_to_bytes",
            29 => "Bytes::try_into_mut",
            30 => "BytesMut::from(Bytes)",
            31 => "Vec::from(Bytes)",
            32 => "drop(Bytes)",
            33 => "Bytes::into_iter",
            40 => "BytesMut::split_off",
            41 => "BytesMut::split_to",
            42 => "BytesMut::split",
            43 => "BytesMut::truncate",
            44 => "BytesMut::clear",
            45 => "BytesMut::resize",
            46 => "BytesMut::reserve",
            47 => "BytesMut::try_reclaim",
            48 => "BytesMut::extend_from_slice",
            49 => "BytesMut::put_slice",
            50 => "BytesMut::put_u8",
            51 => "BytesMut::put_bytes",
            52 => "BytesMut::put(Buf)",
            53 => "BytesMut::extend(iter)",
            54 => "BytesMut::write_str",
            55 => "BytesMut::unsplit",
            56 => "BytesMut::freeze",
            57 => "BytesMut::advance",
            58 => "BytesMut::copy_to_bytes",
            59 => "BytesMut::clone",
            60 => "Vec::from(BytesMut)",
            61 => "BytesMut[i] = v",
            62 => "BytesMut::spare_capacity_mut+set_len",
            63 => "drop(BytesMut)",
            64 => "BytesMut::extend(iter of Bytes)",
            65 => "sole-owner reclaim macro",
            66 => "BytesMut::into_iter",
            70 => "Bytes::from(Vec slot)",
            71 => "drop(Vec)",
            _ => "?",
        }
    }
}

// ---------------------------------------------------------------------------------------------
// selectors: numeric arguments are resolved against the *current* state at execution time

const UMAX: usize = usize::MAX;
const IMAX: usize = isize::MAX as usize;

/// index-like argument for a handle of length `len` and capacity `cap`
pub fn sel_idx(a: u32, len: usize, cap: usize) -> usize {
    match a {
        0 => 0,
        1 => 1,
        2 => len.saturating_sub(1),
        3 => len,
        4 => len + 1,
        5 => cap.saturating_sub(1),
        6 => cap,
        7 => cap + 1,
        8 => len / 2,
        9 => 2,
        10 => len.saturating_sub(2),
        11 => (len + cap) / 2,
        12 => UMAX,
        13 => UMAX - 1,
        14 => UMAX - len,
        15 => IMAX,
        16 => IMAX + 1,
        17 => UMAX.wrapping_sub(len).wrapping_add(1),
        18 => len + 2,
        19 => cap + 2,
        20..=31 => (a - 17) as usize,
        _ => (((a - ARG_TABLE) as u64 * (cap as u64 + 2)) >> 16) as usize,
    }
}

const SIZES: [usize; 32] = [
    0, 1, 2, 3, 4, 5, 7, 8, 9, 11, 15, 16, 17, 23, 24, 31, 32, 33, 40, 63, 64, 65, 100, 127, 128, 1023, 1024, 1025,
    2048, 4096, 65535, 65536,
];
/// size-like argument for constructors / appended data
pub fn sel_size(a: u32) -> usize {
    if a < ARG_TABLE {
        SIZES[a as usize]
    } else {
        (((a - ARG_TABLE) as u64 * 41) >> 16) as usize
    }
}
pub fn sel_small(a: u32, max: usize) -> usize {
    if a < ARG_TABLE {
        SIZES[a as usize].min(max)
    } else {
        (((a - ARG_TABLE) as u64 * (max as u64 + 1)) >> 16) as usize
    }
}

/// capacity request for reserve / try_reclaim / put_bytes / resize growth.
/// `alloc`/`off`: size of the ledger block the handle lives in and the handle's offset in it.
pub fn sel_reserve(a: u32, len: usize, cap: usize, alloc: usize, off: usize) -> usize {
    let spare = cap - len;
    match a {
        0 => 0,
        1 => 1,
        2 => spare.saturating_sub(1),
        3 => spare,
        4 => spare + 1,
        5 => alloc.saturating_sub(len),
        6 => alloc.saturating_sub(len) + 1,
        7 => alloc,
        8 => 2 * alloc,
        9 => 64,
        10 => alloc.saturating_sub(len + off),
        11 => alloc.saturating_sub(len + off) + 1,
        12 => spare + off,
        13 => spare + off + 1,
        14 => IMAX - len + 1,
        15 => IMAX - len + 2,
        16 => IMAX - len + 64,
        17 => UMAX - len,
        18 => (UMAX - len).wrapping_add(1),
        19 => UMAX,
        20 => UMAX - 1,
        21 => UMAX - len - off,
        22 => (UMAX - len - off).wrapping_add(1),
        23 => UMAX - 8,
        24 => alloc + 1,
        25 => alloc / 2,
        26 => UMAX - len - off - 1,
        27 => IMAX - len - off + 1,
        28 => 131072, // large fills: size-dependent fast paths
        29 => 131073,
        30..=31 => (a - 26) as usize,
        _ => (((a - ARG_TABLE) as u64 * (2 * alloc.min(70000) as u64 + 66)) >> 16) as usize,
    }
}

// ---------------------------------------------------------------------------------------------
// static pool and instrumented owners

const fn make_pool() -> [u8; 256] {
    let mut p = [0u8; 256];
    let mut i = 0;
    while i < 256 {
        p[i] = (((i * 13) ^ (i >> 3)) % 241) as u8 + 7;
        i += 1;
    }
    p
}
pub static POOL: [u8; 256] = make_pool();
/// harness-owned data that is never part of any handle (for foreign slice_ref arguments)
pub static FOREIGN: [u8; 64] = [0x42; 64];

#[derive(Default)]
pub struct OwnerStats {
    pub as_ref_calls: AtomicUsize,
    pub drops: AtomicUsize,
    pub buf_ptr: AtomicUsize,
    pub buf_len: AtomicUsize,
}

pub enum OwnerBuf {
    V(Vec<u8>),
    B(Box<[u8]>),
    A(Arc<[u8]>),
    I([u8; 24], usize),
}

pub struct Owner {
    pub buf: OwnerBuf,
    pub stats: Arc<OwnerStats>,
    pub panic_in_as_ref: bool,
}
impl AsRef<[u8]> for Owner {
    fn as_ref(&self) -> &[u8] {
        self.stats.as_ref_calls.fetch_add(1, SeqCst);
        if self.panic_in_as_ref {
            panic!("owner as_ref panics (scripted)");
        }
        let s: &[u8] = match &self.buf {
            OwnerBuf::V(v) => &v[..],
            OwnerBuf::B(b) => &b[..],
            OwnerBuf::A(a) => &a[..],
            OwnerBuf::I(arr, n) => &arr[..*n],
        };
        self.stats.buf_ptr.store(s.as_ptr() as usize, SeqCst);
        self.stats.buf_len.store(s.len(), SeqCst);
        s
    }
}
impl Drop for Owner {
    fn drop(&mut self) {
        self.stats.drops.fetch_add(1, SeqCst);
    }
}

// ---------------------------------------------------------------------------------------------
// model

#[derive(Clone, Copy, PartialEq, Eq, Debug)]
pub enum Origin {
    Static,
    Owner(usize),
    Heap,
}

#[derive(Clone, Debug)]
pub struct Model {
    pub bytes: Vec<u8>,
    pub origin: Origin,
    /// how many view-deriving ops lie between this handle and its constructor
    pub depth: u8,
    /// creation order stamp
    pub born: u32,
}

pub enum Slot {
    Empty,
    B(Bytes, Model),
    M(BytesMut, Model),
    V(Vec<u8>, Model),
}

impl Slot {
    pub fn kind(&self) -> u8 {
        match self {
            Slot::Empty => 0,
            Slot::B(..) => 1,
            Slot::M(..) => 2,
            Slot::V(..) => 3,
        }
    }
}

#[derive(Clone, Debug)]
pub struct Violation {
    pub prop: &'static str,
    pub oracle: &'static str,
    pub detail: String,
    pub step: usize,
    pub op: Op,
    /// the state is wrong but nothing freed or unmapped is involved yet: the case goes on (see check_all, C02 containment)
    pub soft: bool,
}

/// facts about a case used by the per-property non-triviality rules
#[derive(Clone, Copy, Default, Debug)]
pub struct Flags {
    pub shared_block: bool,      // >= 2 live handles lay in one ledger block at some step
    pub three_on_block: bool,    // >= 3
    pub mm_or_mb_shared: bool,   // two BytesMut, or a BytesMut and a Bytes, in one block
    pub transition: bool,        // promotion / offset conversion / reclaim / copy-back / freeze-unfreeze
    pub recomputed_free: bool,   // a free whose size had to be recomputed from an offset view
    pub panic_then_free: bool,   // caught panic followed by further frees
    pub conv_shared: bool,       // consuming conversion of a handle that shared its block
    pub owner_conv: bool,        // owner-backed view converted
    pub out_of_order_drop: bool, // handles on one block dropped in non-creation order
    pub reserve_past_early: bool,
    pub c07_offset_or_nested: bool,
    pub c07_empty_split: bool,
    pub c08_regained: bool,
    pub c08_sole_at_offset: bool,
    pub c13_shared_panic: bool,
    pub c13_after: u8,
    pub panics: u16,
}

pub struct Stats {
    pub cases: u64,
    pub steps: u64,
    pub op_exec: [u64; 80],
    pub op_panic: [u64; 80],
    pub op_skip: [u64; 80],
    pub excluded_band: u64,
    pub c01_reads: u64,
    pub c02_ranges: u64,
    pub c04_pairs: u64,
    pub c07_checks: u64,
    pub c08_true: u64,
    pub c08_false: u64,
    pub c08_open: u64,
    pub c08_try_into_mut_zero_copy: u64,
    pub c08_sole_claims: u64,
    pub c13_panics_checked: u64,
    pub c13_noops: u64,
    pub c03_orphan_checks: u64,
    pub c03_owner_checks: u64,
    pub repr: [u64; 16],
    pub foreign: u64,
    pub leak_retries: u64,
}
impl Default for Stats {
    fn default() -> Self {
        Stats {
            cases: 0,
            steps: 0,
            op_exec: [0; 80],
            op_panic: [0; 80],
            op_skip: [0; 80],
            excluded_band: 0,
            c01_reads: 0,
            c02_ranges: 0,
            c04_pairs: 0,
            c07_checks: 0,
            c08_true: 0,
            c08_false: 0,
            c08_open: 0,
            c08_try_into_mut_zero_copy: 0,
            c08_sole_claims: 0,
            c13_panics_checked: 0,
            c13_noops: 0,
            c03_orphan_checks: 0,
            c03_owner_checks: 0,
            repr: [0; 16],
            foreign: 0,
            leak_retries: 0,
        }
    }
}
pub const REPR_NAMES: [&str; 16] = [
    "static",
    "promotable-even",
    "promotable-odd",
    "promoted(shared after clone)",
    "bytes-shared(vec with spare)",
    "owner",
    "frozen-vec",
    "frozen-arc",
    "mut-vec",
    "mut-vec-offset",
    "mut-arc",
    "mut-from-bytes-zero-copy",
    "mut-from-bytes-copy",
    "empty-detached",
    "vec",
    "owner-as_ref-panic",
];

#[derive(Clone, Copy, Default)]
pub struct Delta {
    pub allocs: u64,
    pub byte_allocs: u64,
    pub frees: u64,
}

/// Run `f` as a call into the crate: bracketed for the allocator, panics caught.
#[inline]
pub fn call<R>(f: impl FnOnce() -> R) -> (Result<R, ()>, Delta) {
    let c0 = oalloc::counters();
    let p = oalloc::enter(BR_CRATE);
    let r = catch_unwind(AssertUnwindSafe(f));
    oalloc::leave(p);
    let c1 = oalloc::counters();
    let d = Delta { allocs: c1.allocs - c0.allocs, byte_allocs: c1.byte_allocs - c0.byte_allocs, frees: c1.frees - c0.frees };
    match r {
        Ok(v) => (Ok(v), d),
        Err(p) => {
            drop(p);
            (Err(()), d)
        }
    }
}

pub fn in_pool(p: usize, len: usize) -> bool {
    let b = POOL.as_ptr() as usize;
    p >= b && p + len <= b + POOL.len()
}

include!("hist_interp.rs");
