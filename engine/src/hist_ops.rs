// included into hist_interp.rs: execution of one operation

#[derive(Clone, Copy, PartialEq, Eq, Debug)]
pub enum Expect {
    Ok,
    MustPanic,
    Either,
}

fn resize_target(a: u32, len: usize, cap: usize) -> usize {
    match a {
        0 => 0,
        1 => len.saturating_sub(1),
        2 => len,
        3 => len + 1,
        4 => cap,
        5 => cap + 1,
        6 => 2 * cap + 1,
        7 => IMAX + 1,
        8 => UMAX,
        9 => IMAX + len + 1,
        10 => len / 2,
        11 => UMAX - 1,
        12..=31 => len + (a as usize - 11),
        _ => (((a - ARG_TABLE) as u64 * (cap.min(70000) as u64 + 66)) >> 16) as usize,
    }
}

trait RevFreeSum {
    fn rev_free_sum(self) -> u64;
}
impl<I: Iterator<Item = u8>> RevFreeSum for I {
    fn rev_free_sum(self) -> u64 {
        let mut t = 0u64;
        self.for_each(|x| t += x as u64);
        t
    }
}

impl<'a> Interp<'a> {
    fn skip(&mut self, kk: u8) {
        self.st.op_skip[kk as usize] += 1;
    }

    /// common epilogue of every executed op
    fn finish(&mut self, kk: u8, panicked: bool, expect: Expect, pre: &[HInfo; NSLOT]) {
        self.st.steps += 1;
        self.st.op_exec[kk as usize] += 1;
        self.dg_u(kk as u64);
        self.dg_u(panicked as u64);
        if panicked {
            self.st.op_panic[kk as usize] += 1;
            self.flags.panics = self.flags.panics.saturating_add(1);
            if expect == Expect::Ok {
                self.viol("C01", "unexpected-panic", format!("{} panicked on in-contract arguments", k::name(kk)));
            }
            if self.flags.shared_block {
                self.flags.c13_shared_panic = true;
                self.flags.c13_after = 0;
            }
            tr!(self, "    -> panicked");
            self.check_all(Some(pre));
        } else {
            if expect == Expect::MustPanic {
                self.viol(
                    "C13",
                    "no-panic-on-contract-violation",
                    format!("{} returned normally for out-of-contract arguments", k::name(kk)),
                );
            }
            self.check_all(None);
        }
    }

    fn c07(&mut self, what: &'static str, ok: bool, d: &Delta, detail: String) {
        self.st.c07_checks += 1;
        if !ok {
            self.viol("C07", "address-relation", format!("{}: {}", what, detail));
        }
        if d.byte_allocs > 0 {
            self.viol("C07", "byte-buffer-allocated", format!("{}: {} align-1 allocation(s) during the call", what, d.byte_allocs));
        }
    }

    /// facts about the source handle of a zero-copy op (for the C07 non-triviality rule)
    fn c07_src(&mut self, i: usize, depth: u8) {
        let h = self.infos[i];
        let off = match h.blk {
            Some(b) => h.ptr != b.ptr,
            None => h.kind == 1 && h.ptr != POOL.as_ptr() as usize,
        };
        if off || depth >= 2 {
            self.flags.c07_offset_or_nested = true;
        }
    }

    fn shares_block(&self, i: usize) -> bool {
        match self.infos[i].blk {
            Some(b) => self.others_in_block(i, b.serial).0 > 0,
            None => false,
        }
    }
    fn at_offset(&self, i: usize) -> bool {
        match self.infos[i].blk {
            Some(b) => self.infos[i].ptr != b.ptr,
            None => false,
        }
    }

    /// an empty BytesMut that is the only handle on its allocation: (allocation size)
    fn sole_owner(&self, i: usize) -> Option<usize> {
        let h = self.infos[i];
        if h.kind != 2 || h.len != 0 {
            return None;
        }
        if h.cap == 0 && oalloc::packed() {
            // packed mode: a one-past-the-end address is also the start of the next block
            return None;
        }
        let b = h.blk?;
        if b.state != BState::Live || b.align != 1 {
            return None;
        }
        if self.others_in_block(i, b.serial).0 > 0 {
            return None;
        }
        // a Vec slot can never share a block with a handle, owners neither (BytesMut is never owner-backed)
        Some(b.size)
    }

    fn put_b(&mut self, j: usize, b: Bytes, m: Model) {
        self.slots[j] = Slot::B(b, m);
    }
    fn put_m(&mut self, j: usize, b: BytesMut, m: Model) {
        self.slots[j] = Slot::M(b, m);
    }

    pub fn exec(&mut self, op: Op) {
        let pre = self.infos;
        let kk = op.k;
        match kk {
            // ------------------------------------------------------------------ constructors
            k::NewStatic => {
                let Some(j) = self.free_slot() else { return self.skip(kk) };
                let a = sel_small(op.a, 255);
                let n = sel_small(op.b, 256 - a);
                tr!(self, "s{} = Bytes::from_static(&POOL[{}..{}])", j, a, a + n);
                // the From impls for 'static data are thin wrappers of from_static
                let as_str = std::str::from_utf8(&POOL[a..a + n]).ok();
                let (r, d) = match (op.c % 3, as_str) {
                    (1, _) => call(|| Bytes::from(&POOL[a..a + n])),
                    (2, Some(st)) => call(|| Bytes::from(st)),
                    _ => call(|| Bytes::from_static(&POOL[a..a + n])),
                };
                let b = r.expect("from_static cannot panic");
                let ok = b.as_ptr() == POOL[a..].as_ptr();
                self.c07("from_static", ok, &d, "result does not point at the static slice".to_string());
                self.st.repr[0] += 1;
                let m = self.new_model(POOL[a..a + n].to_vec(), Origin::Static, 0);
                self.put_b(j, b, m);
                self.finish(kk, false, Expect::Ok, &pre);
            }
            k::NewEmpty => {
                let Some(j) = self.free_slot() else { return self.skip(kk) };
                tr!(self, "s{} = Bytes::new()", j);
                let (r, _) = if op.c % 2 == 1 { call(Bytes::default) } else { call(Bytes::new) };
                let m = self.new_model(Vec::new(), Origin::Static, 0);
                self.put_b(j, r.unwrap(), m);
                self.st.repr[0] += 1;
                self.finish(kk, false, Expect::Ok, &pre);
            }
            k::NewFromVec | k::NewFromString | k::NewFromBox | k::NewCopy => {
                let Some(j) = self.free_slot() else { return self.skip(kk) };
                let n = sel_size(op.a);
                let extra = if kk == k::NewFromVec || kk == k::NewFromString { sel_small(op.b, 64) } else { 0 };
                let mut data = if kk == k::NewFromString {
                    content(op.c, n).iter().map(|b| b & 0x7f).collect::<Vec<u8>>()
                } else {
                    content(op.c, n)
                };
                tr!(self, "s{} = {} len {} spare {}", j, k::name(kk), n, extra);
                let src_ptr;
                let (r, d) = match kk {
                    k::NewFromVec => {
                        let v = oalloc::payload(|| {
                            let mut v = Vec::with_capacity(n + extra);
                            v.extend_from_slice(&data);
                            v
                        });
                        src_ptr = v.as_ptr() as usize;
                        call(move || Bytes::from(v))
                    }
                    k::NewFromString => {
                        let s = oalloc::payload(|| {
                            let mut s = String::with_capacity(n + extra);
                            s.push_str(std::str::from_utf8(&data).unwrap());
                            s
                        });
                        src_ptr = s.as_ptr() as usize;
                        call(move || Bytes::from(s))
                    }
                    k::NewFromBox => {
                        let bx = oalloc::payload(|| data.clone().into_boxed_slice());
                        src_ptr = bx.as_ptr() as usize;
                        call(move || Bytes::from(bx))
                    }
                    _ => {
                        src_ptr = 0;
                        let dref = &data;
                        call(move || Bytes::copy_from_slice(dref))
                    }
                };
                let b = match r {
                    Ok(b) => b,
                    Err(()) => return self.finish(kk, true, Expect::Ok, &pre),
                };
                let _ = (src_ptr, &d); // From<Vec>/From<Box>/From<String> are not in C07's list: no claim
                let repr = if n == 0 && extra == 0 {
                    0
                } else if extra > 0 {
                    4
                } else if b.as_ptr() as usize & 1 == 0 {
                    1
                } else {
                    2
                };
                self.st.repr[repr] += 1;
                let origin = if n == 0 && extra == 0 { Origin::Static } else { Origin::Heap };
                let m = self.new_model(std::mem::take(&mut data), origin, 0);
                self.put_b(j, b, m);
                self.finish(kk, false, Expect::Ok, &pre);
            }
            k::NewFromOwner => {
                let Some(j) = self.free_slot() else { return self.skip(kk) };
                let kind = op.b % 4;
                let n = if kind == 3 { sel_size(op.a).min(24) } else { sel_size(op.a).min(4096) };
                let will_panic = op.c % 16 == 15;
                let data = content(op.c, n);
                let stats = Arc::new(OwnerStats::default());
                let owner = oalloc::payload(|| {
                    let buf = match kind {
                        0 => OwnerBuf::V(data.clone()),
                        1 => OwnerBuf::B(data.clone().into_boxed_slice()),
                        2 => OwnerBuf::A(Arc::from(&data[..])),
                        _ => {
                            let mut a = [0u8; 24];
                            a[..n].copy_from_slice(&data);
                            OwnerBuf::I(a, n)
                        }
                    };
                    Owner { buf, stats: stats.clone(), panic_in_as_ref: will_panic }
                });
                let expected_ptr = match &owner.buf {
                    OwnerBuf::V(v) => v.as_ptr() as usize,
                    OwnerBuf::B(b) => b.as_ptr() as usize,
                    OwnerBuf::A(a) => a.as_ptr() as usize,
                    OwnerBuf::I(..) => 0,
                };
                stats.buf_ptr.store(expected_ptr, SeqCst);
                stats.buf_len.store(n, SeqCst);
                let kidx = self.owners.len();
                self.owners.push(stats.clone());
                self.owner_may_panic.push(will_panic);
                tr!(self, "s{} = Bytes::from_owner(owner#{} kind {} len {}{})", j, kidx, kind, n, if will_panic { ", as_ref panics" } else { "" });
                let (r, d) = call(move || Bytes::from_owner(owner));
                match r {
                    Ok(b) => {
                        if n > 0 {
                            let p = b.as_ptr() as usize;
                            let ok = p == stats.buf_ptr.load(SeqCst) && (expected_ptr == 0 || p == expected_ptr);
                            self.c07("from_owner", ok, &d, "result does not point at the owner's buffer".to_string());
                        }
                        self.st.repr[5] += 1;
                        let m = self.new_model(data, Origin::Owner(kidx), 0);
                        self.put_b(j, b, m);
                        self.finish(kk, false, if will_panic { Expect::MustPanic } else { Expect::Ok }, &pre);
                    }
                    Err(()) => {
                        self.st.repr[15] += 1;
                        self.finish(kk, true, if will_panic { Expect::Either } else { Expect::Ok }, &pre);
                    }
                }
            }
            k::MutWithCap | k::MutZeroed | k::MutFromSlice | k::MutFromIter | k::MutNew => {
                let Some(j) = self.free_slot() else { return self.skip(kk) };
                // capacity requests no allocation can satisfy (> isize::MAX): the constructor must panic and nothing else changes
                if matches!(kk, k::MutWithCap | k::MutZeroed) && op.b % 16 == 15 {
                    let n = match op.a % 3 {
                        0 => usize::MAX,
                        1 => IMAX + 1,
                        _ => IMAX + 1 + (op.a as usize),
                    };
                    tr!(self, "s{} = {} n {} (unrepresentable)", j, k::name(kk), n);
                    let (r, _) = if kk == k::MutWithCap { call(|| BytesMut::with_capacity(n)) } else { call(|| BytesMut::zeroed(n)) };
                    let panicked = r.is_err();
                    drop(r);
                    return self.finish(kk, panicked, Expect::MustPanic, &pre);
                }
                let n = sel_size(op.a);
                let data = content(op.c, n);
                tr!(self, "s{} = {} n {}", j, k::name(kk), n);
                let (r, _) = match kk {
                    k::MutWithCap => call(|| BytesMut::with_capacity(n)),
                    k::MutZeroed => call(|| BytesMut::zeroed(n)),
                    k::MutFromSlice => match (op.b % 2, std::str::from_utf8(&data)) {
                        (1, Ok(st)) => call(|| BytesMut::from(st)),
                        _ => call(|| BytesMut::from(&data[..])),
                    },
                    k::MutFromIter if op.b % 2 == 1 => call(|| data.iter().collect::<BytesMut>()),
                    k::MutFromIter => call(|| data.iter().copied().collect::<BytesMut>()),
                    _ if op.c % 2 == 1 => call(BytesMut::default),
                    _ => call(BytesMut::new),
                };
                let b = match r {
                    Ok(b) => b,
                    Err(()) => return self.finish(kk, true, Expect::Ok, &pre),
                };
                let bytes = match kk {
                    k::MutWithCap | k::MutNew => Vec::new(),
                    k::MutZeroed => vec![0u8; n],
                    _ => data,
                };
                if kk == k::MutWithCap && b.capacity() < n {
                    self.viol("C04", "with_capacity-too-small", format!("with_capacity({}) gave capacity {}", n, b.capacity()));
                }
                self.st.repr[8] += 1;
                let m = self.new_model(bytes, Origin::Heap, 0);
                self.put_m(j, b, m);
                self.finish(kk, false, Expect::Ok, &pre);
            }
            k::NewVec => {
                let Some(j) = self.free_slot() else { return self.skip(kk) };
                let n = sel_size(op.a);
                let extra = sel_small(op.b, 64);
                let data = content(op.c, n);
                tr!(self, "s{} = Vec len {} spare {}", j, n, extra);
                let v = oalloc::payload(|| {
                    let mut v = Vec::with_capacity(n + extra);
                    v.extend_from_slice(&data);
                    v
                });
                self.st.repr[14] += 1;
                let m = self.new_model(data, Origin::Heap, 0);
                self.slots[j] = Slot::V(v, m);
                self.finish(kk, false, Expect::Ok, &pre);
            }

            // ------------------------------------------------------------------ Bytes
            k::BClone | k::BSlice | k::BSliceRef | k::BSplitOff | k::BSplitTo | k::BCopyToBytes => self.exec_b_derive(op, &pre),
            k::BTruncate | k::BClear | k::BAdvance => {
                let Some(i) = self.find(op.s, 1) else { return self.skip(kk) };
                let Slot::B(mut b, mut m) = self.take(i) else { unreachable!() };
                let len = b.len();
                let p = b.as_ptr() as usize;
                let n = if kk == k::BClear { 0 } else { sel_idx(op.a, len, len) };
                let expect = if kk == k::BAdvance && n > len { Expect::MustPanic } else { Expect::Ok };
                tr!(self, "s{}.{}({})", i, k::name(kk), n);
                self.c07_src(i, m.depth);
                let (r, d) = match kk {
                    k::BTruncate => call(|| b.truncate(n)),
                    k::BClear => call(|| b.clear()),
                    _ => call(|| b.advance(n)),
                };
                let panicked = r.is_err();
                if !panicked && expect == Expect::Ok {
                    if kk == k::BAdvance {
                        m.bytes.drain(..n);
                        let ok = b.is_empty() || b.as_ptr() as usize == p + n;
                        self.c07("Bytes::advance", ok, &d, format!("ptr {:#x} expected {:#x}", b.as_ptr() as usize, p + n));
                        if self.at_offset(i) {
                            self.flags.transition = true;
                        }
                    } else {
                        if n < len {
                            m.bytes.truncate(n);
                            if self.infos[i].blk.map_or(false, |bl| bl.by_crate == false) {
                                self.flags.transition = true; // promotable truncated: promotion
                            }
                        } else if kk == k::BTruncate {
                            self.st.c13_noops += 1;
                        }
                        let ok = b.is_empty() || b.as_ptr() as usize == p;
                        self.c07("Bytes::truncate/clear", ok, &d, format!("ptr moved from {:#x} to {:#x}", p, b.as_ptr() as usize));
                    }
                }
                self.put_b(i, b, m);
                self.finish(kk, panicked, expect, &pre);
            }
            k::BTryIntoMut | k::BIntoMut => {
                let Some(i) = self.find(op.s, 1) else { return self.skip(kk) };
                let Slot::B(b, m) = self.take(i) else { unreachable!() };
                let p = b.as_ptr() as usize;
                let len = b.len();
                let uniq = b.is_unique();
                let shared = self.shares_block(i);
                let off = self.at_offset(i);
                tr!(self, "s{} = {}(s{}) [is_unique={}]", i, k::name(kk), i, uniq);
                self.c07_src(i, m.depth);
                if m.origin != Origin::Heap {
                    if let Origin::Owner(_) = m.origin {
                        self.flags.owner_conv = true;
                    }
                }
                if shared {
                    self.flags.conv_shared = true;
                }
                if kk == k::BTryIntoMut {
                    let (r, d) = call(move || b.try_into_mut());
                    match r {
                        Ok(Ok(mm)) => {
                            self.dg_u(1);
                            if !uniq {
                                self.viol("C08", "try_into_mut-ok-but-not-unique", "is_unique() was false immediately before".to_string());
                            }
                            if len > 0 {
                                let same = mm.as_ptr() as usize == p;
                                if !same || d.byte_allocs > 0 {
                                    self.viol("C08", "try_into_mut-did-not-return-same-memory", format!("ptr {:#x} -> {:#x}, byte allocs {}", p, mm.as_ptr() as usize, d.byte_allocs));
                                }
                                self.c07("try_into_mut(unique)", same, &d, format!("ptr {:#x} -> {:#x}", p, mm.as_ptr() as usize));
                                self.st.c08_try_into_mut_zero_copy += 1;
                                self.st.repr[11] += 1;
                            }
                            self.flags.transition = true;
                            if off {
                                self.flags.c08_sole_at_offset = true;
                            }
                            let mut m2 = m;
                            m2.origin = Origin::Heap;
                            self.put_m(i, mm, m2);
                            self.finish(kk, false, Expect::Ok, &pre);
                        }
                        Ok(Err(b)) => {
                            self.dg_u(0);
                            if uniq {
                                self.viol("C08", "try_into_mut-err-but-unique", "is_unique() was true immediately before".to_string());
                            }
                            self.put_b(i, b, m);
                            self.finish(kk, false, Expect::Ok, &pre);
                        }
                        Err(()) => self.finish(kk, true, Expect::Ok, &pre),
                    }
                } else {
                    let (r, d) = call(move || BytesMut::from(b));
                    match r {
                        Ok(mm) => {
                            if uniq && len > 0 {
                                let same = mm.as_ptr() as usize == p;
                                self.c07("BytesMut::from(unique Bytes)", same, &d, format!("ptr {:#x} -> {:#x}", p, mm.as_ptr() as usize));
                                self.st.repr[11] += 1;
                                self.flags.transition = true;
                            } else {
                                self.st.repr[12] += 1;
                            }
                            let mut m2 = m;
                            m2.origin = Origin::Heap;
                            self.put_m(i, mm, m2);
                            self.finish(kk, false, Expect::Ok, &pre);
                        }
                        Err(()) => self.finish(kk, true, Expect::Ok, &pre),
                    }
                }
            }
            k::BIntoVec | k::BIntoIter => {
                let Some(i) = self.find(op.s, 1) else { return self.skip(kk) };
                let Slot::B(b, m) = self.take(i) else { unreachable!() };
                tr!(self, "s{} = {}(s{})", i, k::name(kk), i);
                if self.shares_block(i) {
                    self.flags.conv_shared = true;
                }
                if self.at_offset(i) {
                    self.flags.transition = true;
                    self.flags.recomputed_free = true;
                }
                if let Origin::Owner(_) = m.origin {
                    self.flags.owner_conv = true;
                }
                let (r, _) = if kk == k::BIntoVec {
                    call(move || Vec::from(b))
                } else {
                    // besides a plain collect: the other Iterator / ExactSizeIterator methods of the by-value iterator (nth - which skip and
                    // step_by go through -, len, size_hint) against what std's default methods do on the model
                    let mode = op.a % 4;
                    let n = sel_idx(op.b, m.bytes.len(), m.bytes.len()).min(1 << 20);
                    let exp_store = m.bytes.clone();
                    let exp: &[u8] = &exp_store;
                    call(move || {
                        let by_ref: Vec<u8> = (&b).into_iter().copied().collect();
                        let mut it = b.into_iter();
                        let v = match mode {
                            1 | 2 => {
                                let x = if mode == 1 { it.nth(n) } else { it.by_ref().skip(n).next() };
                                let left = it.len();
                                let hint = it.size_hint();
                                let again = it.next();
                                let rest: Vec<u8> = it.collect();
                                let want_rest: &[u8] = if n < exp.len() { &exp[n + 1..] } else { &[] };
                                let got_rest: Vec<u8> = again.into_iter().chain(rest.iter().copied()).collect();
                                if x == exp.get(n).copied() && left == want_rest.len() && hint == (left, Some(left)) && got_rest[..] == want_rest[..] {
                                    exp.to_vec() // (allocated inside the bracket, like a collected vector)
                                } else {
                                    // something the model cannot be: shows up as a conversion-result difference
                                    let mut bad = vec![0xEE, 0x4E, 0x54, 0x48];
                                    bad.extend(x);
                                    bad.push(left as u8);
                                    bad.extend(got_rest);
                                    bad
                                }
                            }
                            3 => {
                                // the consuming Iterator methods std implements on top of next() (an override would go its own way)
                                let ok = match n % 5 {
                                    0 => it.last() == exp.last().copied(),
                                    1 => it.count() == exp.len(),
                                    2 => it.fold(Vec::new(), |mut a, x| { a.push(x); a })[..] == exp[..],
                                    3 => {
                                        let st = (n % 7).max(1);
                                        it.step_by(st).collect::<Vec<u8>>() == exp.iter().copied().step_by(st).collect::<Vec<u8>>()
                                    }
                                    _ => it.rev_free_sum() == exp.iter().map(|&x| x as u64).sum::<u64>(),
                                };
                                if ok {
                                    exp.to_vec()
                                } else {
                                    vec![0xEE, 0x49, 0x54, 0x45, 0x52, (n % 5) as u8]
                                }
                            }
                            _ => it.collect::<Vec<u8>>(),
                        };
                        assert!(mode != 0 || by_ref == v, "harness-visible: (&Bytes).into_iter() and Bytes::into_iter() disagree");
                        v
                    })
                };
                match r {
                    Ok(v) => {
                        if v[..] != m.bytes[..] {
                            if wrong_bytes_are_poison(&v, &m.bytes) {
                                self.viol("C02", "read-of-freed-memory", format!("{} copied its result out of a freed block: {}", k::name(kk), diff_msg(&v, &m.bytes)));
                            }
                            self.viol("C01", "conversion-result", format!("{}: {}", k::name(kk), diff_msg(&v, &m.bytes)));
                        }
                        let mut m2 = m;
                        m2.origin = Origin::Heap;
                        self.slots[i] = Slot::V(v, m2);
                        self.finish(kk, false, Expect::Ok, &pre);
                    }
                    Err(()) => self.finish(kk, true, Expect::Ok, &pre),
                }
            }
            k::BDrop | k::MDrop | k::VDrop => {
                let want = match kk {
                    k::BDrop => 1,
                    k::MDrop => 2,
                    _ => 3,
                };
                let Some(i) = self.find(op.s, want) else { return self.skip(kk) };
                tr!(self, "drop(s{})", i);
                self.note_drop(i);
                let s = self.take(i);
                let (r, _) = call(move || drop(s));
                if self.flags.panics > 0 {
                    self.flags.panic_then_free = true;
                }
                self.finish(kk, r.is_err(), Expect::Ok, &pre);
            }

            // ------------------------------------------------------------------ BytesMut
            k::MSplitOff | k::MSplitTo | k::MSplit | k::MCopyToBytes | k::MClone => self.exec_m_derive(op, &pre),
            k::MTruncate | k::MClear | k::MAdvance => {
                let Some(i) = self.find(op.s, 2) else { return self.skip(kk) };
                let Slot::M(mut b, mut m) = self.take(i) else { unreachable!() };
                let len = b.len();
                let cap = b.capacity();
                let p = b.as_ptr() as usize;
                let n = if kk == k::MClear { 0 } else { sel_idx(op.a, len, cap) };
                let expect = if kk == k::MAdvance && n > len { Expect::MustPanic } else { Expect::Ok };
                tr!(self, "s{}.{}({}) [len {} cap {}]", i, k::name(kk), n, len, cap);
                self.c07_src(i, m.depth);
                let (r, d) = match kk {
                    k::MTruncate => call(|| b.truncate(n)),
                    k::MClear => call(|| b.clear()),
                    _ => call(|| b.advance(n)),
                };
                let panicked = r.is_err();
                if !panicked && expect == Expect::Ok {
                    if kk == k::MAdvance {
                        m.bytes.drain(..n);
                        let ok = b.as_ptr() as usize == p + n || b.is_empty();
                        self.c07("BytesMut::advance", ok, &d, format!("ptr {:#x} expected {:#x}", b.as_ptr() as usize, p + n));
                        if n > 0 && !self.shares_block(i) {
                            self.st.repr[9] += 1;
                        }
                    } else {
                        if n < len {
                            m.bytes.truncate(n);
                        } else if kk == k::MTruncate {
                            self.st.c13_noops += 1;
                        }
                        let ok = b.as_ptr() as usize == p;
                        self.c07("BytesMut::truncate/clear", ok, &d, "ptr moved".to_string());
                        if b.capacity() != cap {
                            self.viol("C04", "truncate-changed-capacity", format!("{} -> {}", cap, b.capacity()));
                        }
                    }
                }
                self.put_m(i, b, m);
                self.finish(kk, panicked, expect, &pre);
            }
            k::MResize => {
                let Some(i) = self.find(op.s, 2) else { return self.skip(kk) };
                let (len, cap) = (self.infos[i].len, self.infos[i].cap);
                let new_len = resize_target(op.a, len, cap);
                if new_len > LIMIT && new_len <= IMAX {
                    self.st.excluded_band += 1;
                    return self.skip(kk);
                }
                let Slot::M(mut b, mut m) = self.take(i) else { unreachable!() };
                let val = op.b as u8;
                let expect = if new_len > len && new_len > IMAX { Expect::MustPanic } else { Expect::Ok };
                tr!(self, "s{}.resize({}, {:#x}) [len {} cap {}]", i, new_len, val, len, cap);
                if new_len > cap {
                    self.flags.reserve_past_early = true;
                }
                let (r, _) = call(|| b.resize(new_len, val));
                let panicked = r.is_err();
                if !panicked && expect == Expect::Ok {
                    m.bytes.resize(new_len, val);
                }
                self.put_m(i, b, m);
                self.finish(kk, panicked, expect, &pre);
            }
            k::MReserve | k::MTryReclaim | k::MSoleReclaim => self.exec_reserve(op, &pre),
            k::MExtendSlice | k::MPutSlice | k::MPutU8 | k::MPutBytes | k::MPutBuf | k::MExtendIter | k::MWriteStr | k::MExtendBytes => {
                self.exec_append(op, &pre)
            }
            k::MUnsplit => {
                let Some(i) = self.find(op.s, 2) else { return self.skip(kk) };
                let Some(j) = self.find_other(op.t, 2, i) else { return self.skip(kk) };
                let hi = self.infos[i];
                let hj = self.infos[j];
                let Slot::M(mut b, mut m) = self.take(i) else { unreachable!() };
                let Slot::M(o, om) = self.take(j) else { unreachable!() };
                let same_block = match (hi.blk, hj.blk) {
                    (Some(x), Some(y)) => x.serial == y.serial,
                    _ => false,
                };
                let adjacent = same_block && hj.ptr == hi.ptr + hi.len && hi.len > 0 && hj.cap > 0;
                tr!(self, "s{}.unsplit(s{}) [adjacent={} self len {} other len {}]", i, j, adjacent, hi.len, hj.len);
                if hi.len + hj.len > LIMIT {
                    // cannot happen with the generated sizes; keep the allocator band rule anyway
                    self.st.excluded_band += 1;
                }
                let (r, d) = call(|| b.unsplit(o));
                let panicked = r.is_err();
                if !panicked {
                    m.bytes.extend_from_slice(&om.bytes);
                    if adjacent {
                        let ok = b.as_ptr() as usize == hi.ptr;
                        self.c07("unsplit(adjacent halves)", ok, &d, format!("ptr {:#x} -> {:#x}", hi.ptr, b.as_ptr() as usize));
                        if b.capacity() < hi.cap + hj.cap {
                            self.viol("C07", "unsplit-lost-capacity", format!("{} + {} -> {}", hi.cap, hj.cap, b.capacity()));
                        }
                        self.flags.c07_offset_or_nested = true;
                    } else if hi.len == 0 && hj.len > 0 {
                        let ok = b.as_ptr() as usize == hj.ptr;
                        self.c07("unsplit(into empty)", ok, &d, "other was not adopted in place".to_string());
                    }
                }
                self.put_m(i, b, m);
                self.finish(kk, panicked, Expect::Ok, &pre);
            }
            k::MFreeze => {
                let Some(i) = self.find(op.s, 2) else { return self.skip(kk) };
                let Slot::M(b, m) = self.take(i) else { unreachable!() };
                let p = b.as_ptr() as usize;
                let len = b.len();
                tr!(self, "s{} = s{}.freeze() [len {} cap {}]", i, i, len, b.capacity());
                self.c07_src(i, m.depth);
                let shared = self.shares_block(i);
                let off = self.at_offset(i);
                let (r, d) = if op.b % 2 == 1 { call(move || Bytes::from(b)) } else { call(move || b.freeze()) };
                match r {
                    Ok(f) => {
                        if len > 0 {
                            let ok = f.as_ptr() as usize == p;
                            self.c07("freeze", ok, &d, format!("ptr {:#x} -> {:#x}", p, f.as_ptr() as usize));
                        } else if d.byte_allocs > 0 {
                            self.viol("C07", "byte-buffer-allocated", "freeze of an empty handle allocated a byte buffer".to_string());
                        }
                        self.st.repr[if shared { 7 } else { 6 }] += 1;
                        self.flags.transition |= off || shared;
                        self.put_b(i, f, m);
                        self.finish(kk, false, Expect::Ok, &pre);
                    }
                    Err(()) => self.finish(kk, true, Expect::Ok, &pre),
                }
            }
            k::MIntoVec | k::MIntoIter => {
                let Some(i) = self.find(op.s, 2) else { return self.skip(kk) };
                let Slot::M(b, m) = self.take(i) else { unreachable!() };
                tr!(self, "s{} = {}(s{})", i, k::name(kk), i);
                if self.shares_block(i) {
                    self.flags.conv_shared = true;
                }
                if self.at_offset(i) {
                    self.flags.transition = true;
                    self.flags.recomputed_free = true;
                }
                let (r, _) = if kk == k::MIntoVec {
                    call(move || Vec::from(b))
                } else {
                    // besides a plain collect: the other Iterator / ExactSizeIterator methods of the by-value iterator (nth - which skip and
                    // step_by go through -, len, size_hint) against what std's default methods do on the model
                    let mode = op.a % 4;
                    let n = sel_idx(op.b, m.bytes.len(), m.bytes.len()).min(1 << 20);
                    let exp_store = m.bytes.clone();
                    let exp: &[u8] = &exp_store;
                    call(move || {
                        let by_ref: Vec<u8> = (&b).into_iter().copied().collect();
                        let mut it = b.into_iter();
                        let v = match mode {
                            1 | 2 => {
                                let x = if mode == 1 { it.nth(n) } else { it.by_ref().skip(n).next() };
                                let left = it.len();
                                let hint = it.size_hint();
                                let again = it.next();
                                let rest: Vec<u8> = it.collect();
                                let want_rest: &[u8] = if n < exp.len() { &exp[n + 1..] } else { &[] };
                                let got_rest: Vec<u8> = again.into_iter().chain(rest.iter().copied()).collect();
                                if x == exp.get(n).copied() && left == want_rest.len() && hint == (left, Some(left)) && got_rest[..] == want_rest[..] {
                                    exp.to_vec() // (allocated inside the bracket, like a collected vector)
                                } else {
                                    // something the model cannot be: shows up as a conversion-result difference
                                    let mut bad = vec![0xEE, 0x4E, 0x54, 0x48];
                                    bad.extend(x);
                                    bad.push(left as u8);
                                    bad.extend(got_rest);
                                    bad
                                }
                            }
                            3 => {
                                // the consuming Iterator methods std implements on top of next() (an override would go its own way)
                                let ok = match n % 5 {
                                    0 => it.last() == exp.last().copied(),
                                    1 => it.count() == exp.len(),
                                    2 => it.fold(Vec::new(), |mut a, x| { a.push(x); a })[..] == exp[..],
                                    3 => {
                                        let st = (n % 7).max(1);
                                        it.step_by(st).collect::<Vec<u8>>() == exp.iter().copied().step_by(st).collect::<Vec<u8>>()
                                    }
                                    _ => it.rev_free_sum() == exp.iter().map(|&x| x as u64).sum::<u64>(),
                                };
                                if ok {
                                    exp.to_vec()
                                } else {
                                    vec![0xEE, 0x49, 0x54, 0x45, 0x52, (n % 5) as u8]
                                }
                            }
                            _ => it.collect::<Vec<u8>>(),
                        };
                        assert!(mode != 0 || by_ref == v, "harness-visible: (&BytesMut).into_iter() and BytesMut::into_iter() disagree");
                        v
                    })
                };
                match r {
                    Ok(v) => {
                        if v[..] != m.bytes[..] {
                            if wrong_bytes_are_poison(&v, &m.bytes) {
                                self.viol("C02", "read-of-freed-memory", format!("{} copied its result out of a freed block: {}", k::name(kk), diff_msg(&v, &m.bytes)));
                            }
                            self.viol("C01", "conversion-result", format!("{}: {}", k::name(kk), diff_msg(&v, &m.bytes)));
                        }
                        self.slots[i] = Slot::V(v, m);
                        self.finish(kk, false, Expect::Ok, &pre);
                    }
                    Err(()) => self.finish(kk, true, Expect::Ok, &pre),
                }
            }
            k::MIndexWrite => {
                let Some(i) = self.find(op.s, 2) else { return self.skip(kk) };
                if self.infos[i].len == 0 {
                    return self.skip(kk);
                }
                let Slot::M(mut b, mut m) = self.take(i) else { unreachable!() };
                let idx = sel_idx(op.a, b.len() - 1, b.len() - 1).min(b.len() - 1);
                let mut val = op.b as u8;
                if val == oalloc::POISON || val == oalloc::GUARD {
                    val ^= 0x11;
                }
                tr!(self, "s{}[{}] = {:#x}", i, idx, val);
                let (r, _) = call(|| {
                    b[idx] = val;
                    // a second route to the same bytes
                    let s: &mut [u8] = b.as_mut();
                    s[idx] = val;
                    let s: &mut [u8] = std::borrow::BorrowMut::borrow_mut(&mut b);
                    s[idx] = val;
                });
                m.bytes[idx] = val;
                self.put_m(i, b, m);
                self.finish(kk, r.is_err(), Expect::Ok, &pre);
            }
            k::MFillSpare => {
                let Some(i) = self.find(op.s, 2) else { return self.skip(kk) };
                let Slot::M(mut b, mut m) = self.take(i) else { unreachable!() };
                let spare = b.capacity() - b.len();
                let grow = sel_small(op.a, spare);
                let seed = op.b;
                tr!(self, "s{}: fill all {} spare bytes, set_len(len+{})", i, spare, grow);
                let (r, _) = call(|| {
                    let sp = b.spare_capacity_mut();
                    let n = sp.len();
                    for (q, x) in sp.iter_mut().enumerate() {
                        x.write(content_byte(seed, q));
                    }
                    assert!(grow <= n);
                    let l = b.len();
                    unsafe { b.set_len(l + grow) };
                    n
                });
                match r {
                    Ok(n) => {
                        if n != spare {
                            self.viol("C04", "spare_capacity_mut-length", format!("spare_capacity_mut().len()={} but capacity()-len()={}", n, spare));
                        }
                        for q in 0..grow {
                            m.bytes.push(content_byte(seed, q));
                        }
                        self.put_m(i, b, m);
                        self.finish(kk, false, Expect::Ok, &pre);
                    }
                    Err(()) => {
                        self.put_m(i, b, m);
                        self.finish(kk, true, Expect::Ok, &pre);
                    }
                }
            }
            // ------------------------------------------------------------------ Vec
            k::VIntoBytes => {
                let Some(i) = self.find(op.s, 3) else { return self.skip(kk) };
                let Slot::V(v, m) = self.take(i) else { unreachable!() };
                let p = v.as_ptr() as usize;
                let (len, cap) = (v.len(), v.capacity());
                tr!(self, "s{} = Bytes::from(vec s{}) [len {} cap {}]", i, i, len, cap);
                let (r, d) = call(move || Bytes::from(v));
                match r {
                    Ok(b) => {
                        let _ = &d;
                        let mut m2 = m;
                        m2.origin = if cap == 0 { Origin::Static } else { Origin::Heap };
                        m2.depth = 0;
                        self.st.repr[if len == cap { 1 + (p & 1) } else { 4 }] += 1;
                        self.put_b(i, b, m2);
                        self.finish(kk, false, Expect::Ok, &pre);
                    }
                    Err(()) => self.finish(kk, true, Expect::Ok, &pre),
                }
            }
            _ => self.skip(kk.min(79)),
        }
    }
}

include!("hist_ops2.rs");
