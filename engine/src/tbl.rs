//! Engine T: table-driven checks of C14 (equality / ordering / hashing) and C15 (Debug, hex,
//! serde round trips) over exhaustive small universes plus seeded random strings.

use crate::hist::{Owner, OwnerBuf, OwnerStats};
use crate::util::{self, fnv64, Args};
use bytes::{Buf, Bytes, BytesMut};
use proptest::prelude::*;
use proptest::test_runner::{Config, RngAlgorithm, RngSeed, TestCaseError, TestError, TestRng, TestRunner};
use serde_json::{json, Value};
use std::cmp::Ordering;
use std::collections::{BTreeMap, HashMap, HashSet};
use std::hash::{Hash, Hasher};
use std::sync::Arc;

// ---------------------------------------------------------------------------------------------
// representations

pub fn bytes_reps(x: &[u8]) -> Vec<(&'static str, Bytes)> {
    let mut v: Vec<(&'static str, Bytes)> = Vec::new();
    let st: &'static [u8] = Box::leak(x.to_vec().into_boxed_slice());
    v.push(("static", Bytes::from_static(st)));
    v.push(("promotable", Bytes::from(x.to_vec().into_boxed_slice())));
    let mut sp = Vec::with_capacity(x.len() + 3);
    sp.extend_from_slice(x);
    v.push(("shared", Bytes::from(sp)));
    let owner = Owner { buf: OwnerBuf::V(x.to_vec()), stats: Arc::new(OwnerStats::default()), panic_in_as_ref: false };
    v.push(("owner", Bytes::from_owner(owner)));
    let mut pre = vec![0x7eu8, 0x01];
    pre.extend_from_slice(x);
    pre.push(0x55);
    let mut b = Bytes::from(pre);
    b.advance(2);
    b.truncate(x.len());
    v.push(("advanced-view", b));
    v
}
pub fn mut_reps(x: &[u8]) -> Vec<(&'static str, BytesMut)> {
    let mut v: Vec<(&'static str, BytesMut)> = Vec::new();
    v.push(("inline-vec", BytesMut::from(x)));
    let mut pre = vec![0x11u8, 0x22, 0x33];
    pre.extend_from_slice(x);
    let mut b = BytesMut::from(&pre[..]);
    b.advance(3);
    v.push(("vec-offset", b));
    let mut both = x.to_vec();
    both.extend_from_slice(b"tail");
    let mut b = BytesMut::from(&both[..]);
    let tail = b.split_off(x.len());
    std::mem::forget(tail); // keeps the buffer shared for the lifetime of the table (deliberate)
    v.push(("shared", b));
    // spare capacity of a length-dependent size: a comparison must not look at capacity() (or anything but the bytes)
    let mut b = BytesMut::with_capacity(x.len() + 1 + (x.len() * 7) % 23);
    b.extend_from_slice(x);
    v.push(("vec-with-spare-capacity", b));
    let mut b = BytesMut::with_capacity(4 + x.len() + 9);
    b.extend_from_slice(b"head");
    b.extend_from_slice(x);
    let head = b.split_to(4);
    std::mem::forget(head); // shared for the lifetime of the table, see above
    v.push(("shared-with-spare-capacity", b));
    v
}

pub struct TCol {
    pub evals: u64,
    pub nontriv: HashSet<u64>,
    pub per_impl: BTreeMap<String, u64>,
    pub viols: Vec<Value>,
    pub samples: Vec<Value>,
    pub known_skipped: u64,
}
impl TCol {
    pub fn new_pub() -> Self {
        Self::new()
    }
    fn new() -> Self {
        TCol { evals: 0, nontriv: HashSet::new(), per_impl: BTreeMap::new(), viols: Vec::new(), samples: Vec::new(), known_skipped: 0 }
    }
    pub fn viol(&mut self, prop: &str, oracle: &str, lhs: &str, rhs: &str, detail: String, replay: Value) {
        if self.viols.len() < 8 && !self.viols.iter().any(|v| v["oracle"] == oracle && v["lhs"] == lhs && v["rhs"] == rhs) {
            self.viols.push(json!({"property": prop, "oracle": oracle, "lhs": lhs, "rhs": rhs, "op": format!("<{} as _<{}>>::{}", lhs, rhs, oracle),
                "detail": detail, "replay": replay, "profile": util::profile_name()}));
        }
    }
}

fn replay14(x: &[u8], y: &[u8]) -> Value {
    json!({"engine": "tbl", "kind": "cmp", "x": x, "y": y})
}

macro_rules! chk_eq {
    ($col:expr, $L:ty, $R:ty, $l:expr, $r:expr, $x:expr, $y:expr, $ln:expr, $rn:expr, $lrep:expr, $rrep:expr) => {{
        let l: &$L = $l;
        let r: &$R = $r;
        let e = <$L as PartialEq<$R>>::eq(l, r);
        let n = <$L as PartialEq<$R>>::ne(l, r);
        $col.evals += 1;
        *$col.per_impl.entry(format!("PartialEq<{}> for {}", $rn, $ln)).or_insert(0) += 1;
        if e != ($x == $y) || n != ($x != $y) {
            $col.viol("C14", "eq", $ln, $rn, format!("x={:02x?} ({}) y={:02x?} ({}): eq={} ne={}, slices say eq={}", $x, $lrep, $y, $rrep, e, n, $x == $y), replay14($x, $y));
        }
    }};
}
macro_rules! chk_ord {
    ($col:expr, $L:ty, $R:ty, $l:expr, $r:expr, $x:expr, $y:expr, $ln:expr, $rn:expr, $lrep:expr, $rrep:expr) => {{
        let l: &$L = $l;
        let r: &$R = $r;
        let want = $x.partial_cmp($y);
        let pc = <$L as PartialOrd<$R>>::partial_cmp(l, r);
        let lt = <$L as PartialOrd<$R>>::lt(l, r);
        let le = <$L as PartialOrd<$R>>::le(l, r);
        let gt = <$L as PartialOrd<$R>>::gt(l, r);
        let ge = <$L as PartialOrd<$R>>::ge(l, r);
        $col.evals += 1;
        *$col.per_impl.entry(format!("PartialOrd<{}> for {}", $rn, $ln)).or_insert(0) += 1;
        let w = want.unwrap();
        let ok = pc == want
            && lt == (w == Ordering::Less)
            && le == (w != Ordering::Greater)
            && gt == (w == Ordering::Greater)
            && ge == (w != Ordering::Less);
        if !ok {
            $col.viol(
                "C14",
                "partial_cmp",
                $ln,
                $rn,
                format!("x={:02x?} ({}) y={:02x?} ({}): partial_cmp={:?} lt={} le={} gt={} ge={}, slices say {:?}", $x, $lrep, $y, $rrep, pc, lt, le, gt, ge, want),
                replay14($x, $y),
            );
        }
    }};
}

#[derive(Default)]
struct RecHasher {
    log: Vec<u8>,
}
impl Hasher for RecHasher {
    fn finish(&self) -> u64 {
        fnv64(&self.log)
    }
    fn write(&mut self, bytes: &[u8]) {
        self.log.push(0xF0);
        self.log.extend_from_slice(&(bytes.len() as u32).to_le_bytes());
        self.log.extend_from_slice(bytes);
    }
    fn write_usize(&mut self, i: usize) {
        self.log.push(0xF1);
        self.log.extend_from_slice(&(i as u64).to_le_bytes());
    }
    fn write_u8(&mut self, i: u8) {
        self.log.push(0xF2);
        self.log.push(i);
    }
}

fn hash_log<T: Hash + ?Sized>(t: &T) -> (Vec<u8>, u64) {
    let mut r = RecHasher::default();
    t.hash(&mut r);
    let mut d = std::collections::hash_map::DefaultHasher::new();
    t.hash(&mut d);
    (r.log, d.finish())
}

/// all comparisons for one ordered pair (x, y)
fn cmp_pair(col: &mut TCol, x: &[u8], y: &[u8], xb: &[(&'static str, Bytes)], yb: &[(&'static str, Bytes)], xm: &[(&'static str, BytesMut)], ym: &[(&'static str, BytesMut)]) {
    let yv: Vec<u8> = y.to_vec();
    let xv: Vec<u8> = x.to_vec();
    let ys = std::str::from_utf8(y).ok();
    let xs = std::str::from_utf8(x).ok();
    let yst: Option<String> = ys.map(|s| s.to_string());
    let xst: Option<String> = xs.map(|s| s.to_string());
    if x != y {
        let mut k = x.to_vec();
        k.push(0xfe);
        k.extend_from_slice(y);
        col.nontriv.insert(fnv64(&k));
    }
    // ---- Bytes on the left, every right operand type
    for (ln, l) in xb {
        chk_eq!(col, Bytes, [u8], l, y, x, y, "Bytes", "[u8]", ln, "-");
        chk_ord!(col, Bytes, [u8], l, y, x, y, "Bytes", "[u8]", ln, "-");
        chk_eq!(col, Bytes, &[u8], l, &y, x, y, "Bytes", "&[u8]", ln, "-");
        chk_ord!(col, Bytes, &[u8], l, &y, x, y, "Bytes", "&[u8]", ln, "-");
        chk_eq!(col, Bytes, Vec<u8>, l, &yv, x, y, "Bytes", "Vec<u8>", ln, "-");
        chk_ord!(col, Bytes, Vec<u8>, l, &yv, x, y, "Bytes", "Vec<u8>", ln, "-");
        chk_eq!(col, Bytes, &Vec<u8>, l, &&yv, x, y, "Bytes", "&Vec<u8>", ln, "-");
        chk_ord!(col, Bytes, &Vec<u8>, l, &&yv, x, y, "Bytes", "&Vec<u8>", ln, "-");
        if let (Some(s), Some(st)) = (ys, yst.as_ref()) {
            chk_eq!(col, Bytes, str, l, s, x, y, "Bytes", "str", ln, "-");
            chk_ord!(col, Bytes, str, l, s, x, y, "Bytes", "str", ln, "-");
            chk_eq!(col, Bytes, &str, l, &s, x, y, "Bytes", "&str", ln, "-");
            chk_ord!(col, Bytes, &str, l, &s, x, y, "Bytes", "&str", ln, "-");
            chk_eq!(col, Bytes, String, l, st, x, y, "Bytes", "String", ln, "-");
            chk_ord!(col, Bytes, String, l, st, x, y, "Bytes", "String", ln, "-");
            chk_eq!(col, Bytes, &String, l, &st, x, y, "Bytes", "&String", ln, "-");
            chk_ord!(col, Bytes, &String, l, &st, x, y, "Bytes", "&String", ln, "-");
        }
        for (rn, r) in yb {
            chk_eq!(col, Bytes, Bytes, l, r, x, y, "Bytes", "Bytes", ln, rn);
            chk_ord!(col, Bytes, Bytes, l, r, x, y, "Bytes", "Bytes", ln, rn);
            chk_eq!(col, Bytes, &Bytes, l, &r, x, y, "Bytes", "&Bytes", ln, rn);
            chk_ord!(col, Bytes, &Bytes, l, &r, x, y, "Bytes", "&Bytes", ln, rn);
            col.evals += 1;
            if Ord::cmp(l, r) != x.cmp(y) {
                col.viol("C14", "cmp", "Bytes", "Bytes", format!("x={:02x?} y={:02x?}", x, y), replay14(x, y));
            }
            // provided Ord methods must agree with cmp
            let mx = Ord::max(l.clone(), r.clone());
            let mn = Ord::min(l.clone(), r.clone());
            if &mx[..] != x.max(y) || &mn[..] != x.min(y) {
                col.viol("C14", "max/min", "Bytes", "Bytes", format!("x={:02x?} y={:02x?}", x, y), replay14(x, y));
            }
        }
        for (rn, r) in ym {
            chk_eq!(col, Bytes, BytesMut, l, r, x, y, "Bytes", "BytesMut", ln, rn);
            chk_eq!(col, Bytes, &BytesMut, l, &r, x, y, "Bytes", "&BytesMut", ln, rn);
        }
    }
    // ---- both operands are views of ONE shared buffer (same start when one is a prefix of the other, adjacent otherwise,
    //      a clone when equal): pointer-based shortcuts in eq / cmp / hash must not change the answer
    {
        let mut views: Vec<(&'static str, Bytes, Bytes)> = Vec::new();
        let mut cat = x.to_vec();
        cat.extend_from_slice(y);
        let buf = Bytes::from(cat);
        views.push(("adjacent views of one buffer", buf.slice(..x.len()), buf.slice(x.len()..)));
        if y.starts_with(x) {
            let b = Bytes::from(y.to_vec());
            views.push(("same start, shorter vs longer", b.slice(..x.len()), b.clone()));
            let mut t = b.clone();
            t.truncate(x.len());
            views.push(("truncated clone vs original", t, b));
        }
        if x.starts_with(y) {
            let b = Bytes::copy_from_slice(x);
            views.push(("same start, longer vs shorter", b.clone(), b.slice(..y.len())));
            let mut rest = b.clone();
            let head = rest.split_to(0);
            if y.is_empty() {
                views.push(("rest vs empty head of split_to(0)", rest, head));
            }
        }
        if x == y {
            let b = Bytes::copy_from_slice(x);
            views.push(("clone", b.clone(), b));
        }
        for (vn, l, r) in &views {
            chk_eq!(col, Bytes, Bytes, l, r, x, y, "Bytes", "Bytes", vn, "same buffer");
            chk_ord!(col, Bytes, Bytes, l, r, x, y, "Bytes", "Bytes", vn, "same buffer");
            chk_eq!(col, Bytes, &Bytes, l, &r, x, y, "Bytes", "&Bytes", vn, "same buffer");
            col.evals += 1;
            // equal values must hash identically (the converse is not required of a hash)
            if Ord::cmp(l, r) != x.cmp(y) || (x == y && hash_log(l) != hash_log(r)) {
                col.viol("C14", "cmp", "Bytes", "Bytes", format!("views of one buffer: x={:02x?} y={:02x?}", x, y), replay14(x, y));
            }
        }
    }
    // ---- BytesMut operands that come out of ONE buffer: regions never overlap, but an empty handle can start where a
    //      non-empty one starts (split_to(0) / split_off(0) / split()), and halves can be adjacent
    {
        let mut views: Vec<(&'static str, BytesMut, BytesMut)> = Vec::new();
        let mut cat = BytesMut::with_capacity(x.len() + y.len() + 3);
        cat.extend_from_slice(x);
        cat.extend_from_slice(y);
        let tail = cat.split_off(x.len());
        views.push(("adjacent halves of one buffer", cat, tail));
        if x.is_empty() {
            let mut b = BytesMut::from(y);
            let head = b.split_to(0);
            views.push(("empty head of split_to(0) vs rest", head, b));
        }
        if y.is_empty() {
            let mut b = BytesMut::from(x);
            let tail = b.split_off(x.len());
            views.push(("all vs empty tail of split_off(len)", b, tail));
            let mut b = BytesMut::from(x);
            let all = b.split();
            // `b` is now the empty remainder behind `all`; same start address only when x is empty too
            views.push(("split() part vs empty remainder", all, b));
        }
        if x.is_empty() && !y.is_empty() {
            let mut b = BytesMut::from(y);
            let tail = b.split_off(0);
            views.push(("emptied self of split_off(0) vs tail", b, tail));
        }
        for (vn, l, r) in &views {
            chk_eq!(col, BytesMut, BytesMut, l, r, x, y, "BytesMut", "BytesMut", vn, "same buffer");
            chk_ord!(col, BytesMut, BytesMut, l, r, x, y, "BytesMut", "BytesMut", vn, "same buffer");
            chk_eq!(col, BytesMut, &BytesMut, l, &r, x, y, "BytesMut", "&BytesMut", vn, "same buffer");
            col.evals += 1;
            if Ord::cmp(l, r) != x.cmp(y) || (x == y && hash_log(l) != hash_log(r)) {
                col.viol("C14", "cmp", "BytesMut", "BytesMut", format!("halves of one buffer: x={:02x?} y={:02x?}", x, y), replay14(x, y));
            }
        }
    }
    // ---- Bytes on the right
    for (rn, r) in yb {
        chk_eq!(col, [u8], Bytes, x, r, x, y, "[u8]", "Bytes", "-", rn);
        chk_ord!(col, [u8], Bytes, x, r, x, y, "[u8]", "Bytes", "-", rn);
        chk_eq!(col, &[u8], Bytes, &x, r, x, y, "&[u8]", "Bytes", "-", rn);
        chk_ord!(col, &[u8], Bytes, &x, r, x, y, "&[u8]", "Bytes", "-", rn);
        chk_eq!(col, Vec<u8>, Bytes, &xv, r, x, y, "Vec<u8>", "Bytes", "-", rn);
        chk_ord!(col, Vec<u8>, Bytes, &xv, r, x, y, "Vec<u8>", "Bytes", "-", rn);
        if let (Some(s), Some(st)) = (xs, xst.as_ref()) {
            chk_eq!(col, str, Bytes, s, r, x, y, "str", "Bytes", "-", rn);
            chk_ord!(col, str, Bytes, s, r, x, y, "str", "Bytes", "-", rn);
            chk_eq!(col, &str, Bytes, &s, r, x, y, "&str", "Bytes", "-", rn);
            chk_ord!(col, &str, Bytes, &s, r, x, y, "&str", "Bytes", "-", rn);
            chk_eq!(col, String, Bytes, st, r, x, y, "String", "Bytes", "-", rn);
            chk_ord!(col, String, Bytes, st, r, x, y, "String", "Bytes", "-", rn);
        }
    }
    // ---- BytesMut on the left
    for (ln, l) in xm {
        chk_eq!(col, BytesMut, [u8], l, y, x, y, "BytesMut", "[u8]", ln, "-");
        chk_ord!(col, BytesMut, [u8], l, y, x, y, "BytesMut", "[u8]", ln, "-");
        chk_eq!(col, BytesMut, &[u8], l, &y, x, y, "BytesMut", "&[u8]", ln, "-");
        chk_ord!(col, BytesMut, &[u8], l, &y, x, y, "BytesMut", "&[u8]", ln, "-");
        chk_eq!(col, BytesMut, Vec<u8>, l, &yv, x, y, "BytesMut", "Vec<u8>", ln, "-");
        chk_ord!(col, BytesMut, Vec<u8>, l, &yv, x, y, "BytesMut", "Vec<u8>", ln, "-");
        chk_eq!(col, BytesMut, &Vec<u8>, l, &&yv, x, y, "BytesMut", "&Vec<u8>", ln, "-");
        chk_ord!(col, BytesMut, &Vec<u8>, l, &&yv, x, y, "BytesMut", "&Vec<u8>", ln, "-");
        if let (Some(s), Some(st)) = (ys, yst.as_ref()) {
            chk_eq!(col, BytesMut, str, l, s, x, y, "BytesMut", "str", ln, "-");
            chk_ord!(col, BytesMut, str, l, s, x, y, "BytesMut", "str", ln, "-");
            chk_eq!(col, BytesMut, &str, l, &s, x, y, "BytesMut", "&str", ln, "-");
            chk_ord!(col, BytesMut, &str, l, &s, x, y, "BytesMut", "&str", ln, "-");
            chk_eq!(col, BytesMut, String, l, st, x, y, "BytesMut", "String", ln, "-");
            chk_ord!(col, BytesMut, String, l, st, x, y, "BytesMut", "String", ln, "-");
            chk_eq!(col, BytesMut, &String, l, &st, x, y, "BytesMut", "&String", ln, "-");
            chk_ord!(col, BytesMut, &String, l, &st, x, y, "BytesMut", "&String", ln, "-");
        }
        for (rn, r) in ym {
            chk_eq!(col, BytesMut, BytesMut, l, r, x, y, "BytesMut", "BytesMut", ln, rn);
            chk_ord!(col, BytesMut, BytesMut, l, r, x, y, "BytesMut", "BytesMut", ln, rn);
            chk_eq!(col, BytesMut, &BytesMut, l, &r, x, y, "BytesMut", "&BytesMut", ln, rn);
            chk_ord!(col, BytesMut, &BytesMut, l, &r, x, y, "BytesMut", "&BytesMut", ln, rn);
            col.evals += 1;
            if Ord::cmp(l, r) != x.cmp(y) {
                col.viol("C14", "cmp", "BytesMut", "BytesMut", format!("x={:02x?} y={:02x?}", x, y), replay14(x, y));
            }
        }
        for (rn, r) in yb {
            chk_eq!(col, BytesMut, Bytes, l, r, x, y, "BytesMut", "Bytes", ln, rn);
            chk_eq!(col, BytesMut, &Bytes, l, &r, x, y, "BytesMut", "&Bytes", ln, rn);
        }
    }
    // ---- BytesMut on the right
    for (rn, r) in ym {
        chk_eq!(col, [u8], BytesMut, x, r, x, y, "[u8]", "BytesMut", "-", rn);
        chk_ord!(col, [u8], BytesMut, x, r, x, y, "[u8]", "BytesMut", "-", rn);
        chk_eq!(col, &[u8], BytesMut, &x, r, x, y, "&[u8]", "BytesMut", "-", rn);
        chk_ord!(col, &[u8], BytesMut, &x, r, x, y, "&[u8]", "BytesMut", "-", rn);
        chk_eq!(col, Vec<u8>, BytesMut, &xv, r, x, y, "Vec<u8>", "BytesMut", "-", rn);
        chk_ord!(col, Vec<u8>, BytesMut, &xv, r, x, y, "Vec<u8>", "BytesMut", "-", rn);
        if let (Some(s), Some(st)) = (xs, xst.as_ref()) {
            chk_eq!(col, str, BytesMut, s, r, x, y, "str", "BytesMut", "-", rn);
            chk_ord!(col, str, BytesMut, s, r, x, y, "str", "BytesMut", "-", rn);
            chk_eq!(col, &str, BytesMut, &s, r, x, y, "&str", "BytesMut", "-", rn);
            chk_ord!(col, &str, BytesMut, &s, r, x, y, "&str", "BytesMut", "-", rn);
            chk_eq!(col, String, BytesMut, st, r, x, y, "String", "BytesMut", "-", rn);
            chk_ord!(col, String, BytesMut, st, r, x, y, "String", "BytesMut", "-", rn);
        }
    }
}

fn hash_one(col: &mut TCol, x: &[u8], xb: &[(&'static str, Bytes)], xm: &[(&'static str, BytesMut)]) {
    let want = hash_log(x);
    for (n, b) in xb {
        col.evals += 1;
        let got = hash_log(b);
        let via_borrow = hash_log(<Bytes as std::borrow::Borrow<[u8]>>::borrow(b));
        if got != want || via_borrow != want {
            col.viol("C14", "hash", "Bytes", "[u8]", format!("x={:02x?} rep {}: hasher calls differ from those of the borrowed slice", x, n), json!({"engine":"tbl","kind":"hash","x":x}));
        }
    }
    for (n, b) in xm {
        col.evals += 1;
        let got = hash_log(b);
        let via_borrow = hash_log(<BytesMut as std::borrow::Borrow<[u8]>>::borrow(b));
        if got != want || via_borrow != want {
            col.viol("C14", "hash", "BytesMut", "[u8]", format!("x={:02x?} rep {}: hasher calls differ from those of the borrowed slice", x, n), json!({"engine":"tbl","kind":"hash","x":x}));
        }
    }
}

fn universe() -> Vec<Vec<u8>> {
    let alpha = [0x00u8, 0x61, 0x62, 0xff];
    let mut u: Vec<Vec<u8>> = vec![vec![]];
    let mut layer: Vec<Vec<u8>> = vec![vec![]];
    for _ in 0..3 {
        let mut next = Vec::new();
        for s in &layer {
            for &a in &alpha {
                let mut t = s.clone();
                t.push(a);
                next.push(t);
            }
        }
        u.extend(next.iter().cloned());
        layer = next;
    }
    u
}

fn pair_strategy() -> BoxedStrategy<(Vec<u8>, Vec<u8>)> {
    // mostly short; one in ten up to 600 bytes (hashing and comparison of long inputs, differences far from the start)
    let bytes = prop_oneof![9 => proptest::collection::vec(any::<u8>(), 0..40), 1 => proptest::collection::vec(any::<u8>(), 40..600)];
    let ascii = prop_oneof![9 => proptest::collection::vec(0x20u8..0x7f, 0..40), 1 => proptest::collection::vec(0x20u8..0x7f, 40..300)];
    prop_oneof![
        // independent
        (bytes.clone(), bytes.clone()),
        // equal
        bytes.clone().prop_map(|x| (x.clone(), x)),
        // prefix
        (bytes.clone(), proptest::collection::vec(any::<u8>(), 1..5)).prop_map(|(x, t)| {
            let mut y = x.clone();
            y.extend(t);
            (x, y)
        }),
        // long common prefix, differ in one late byte (sign-of-byte and length-first shortcuts)
        (proptest::collection::vec(any::<u8>(), 64..200), any::<u8>(), any::<u16>()).prop_map(|(x, d, at)| {
            let mut y = x.clone();
            let n = 3 + (at as usize) % (y.len() - 3);
            y[n] = y[n].wrapping_add(d | 0x80);
            (x, y)
        }),
        // differ in the last byte
        (proptest::collection::vec(any::<u8>(), 1..40), any::<u8>()).prop_map(|(x, d)| {
            let mut y = x.clone();
            let n = y.len() - 1;
            y[n] = y[n].wrapping_add(d | 1);
            (x, y)
        }),
        // valid UTF-8 on both sides (exercises the str / String impls)
        (ascii.clone(), ascii.clone()),
        (ascii.clone(), proptest::collection::vec(0x20u8..0x7f, 1..4)).prop_map(|(x, t)| {
            let mut y = x.clone();
            y.extend(t);
            (y, x)
        }),
    ]
    .boxed()
}

pub fn run_c14(args: &Args, col: &mut TCol) {
    let seed = args.u64("seed", 1);
    let worker = args.u64("worker", 0);
    let workers = args.u64("workers", 1);
    let cases = args.u64("cases", 5000);
    if let Some(path) = args.kv.get("replay") {
        let v: Value = serde_json::from_str(&std::fs::read_to_string(path).unwrap_or_default()).unwrap_or(Value::Null);
        let g = |k: &str| -> Vec<u8> { v[k].as_array().map(|a| a.iter().map(|b| b.as_u64().unwrap_or(0) as u8).collect()).unwrap_or_default() };
        let (x, y) = (g("x"), g("y"));
        cmp_pair(col, &x, &y, &bytes_reps(&x), &bytes_reps(&y), &mut_reps(&x), &mut_reps(&y));
        cmp_pair(col, &y, &x, &bytes_reps(&y), &bytes_reps(&x), &mut_reps(&y), &mut_reps(&x));
        hash_one(col, &x, &bytes_reps(&x), &mut_reps(&x));
        return;
    }
    // exhaustive universe, partitioned by row
    let u = universe();
    let reps_b: Vec<_> = u.iter().map(|s| bytes_reps(s)).collect();
    let reps_m: Vec<_> = u.iter().map(|s| mut_reps(s)).collect();
    for i in 0..u.len() {
        if (i as u64) % workers != worker {
            continue;
        }
        hash_one(col, &u[i], &reps_b[i], &reps_m[i]);
        for j in 0..u.len() {
            cmp_pair(col, &u[i], &u[j], &reps_b[i], &reps_b[j], &reps_m[i], &reps_m[j]);
        }
        // Borrow-keyed map lookups
        let mut hm: HashMap<Bytes, usize> = HashMap::new();
        let mut hs: HashSet<BytesMut> = HashSet::new();
        for (k, s) in u.iter().enumerate() {
            hm.insert(reps_b[k][k % 5].1.clone(), k);
            hs.insert(BytesMut::from(&s[..]));
        }
        col.evals += 2;
        if hm.get(&u[i][..]) != Some(&i) || !hs.contains(&u[i][..]) {
            col.viol("C14", "hash", "HashMap<Bytes,_>", "[u8]", format!("lookup of {:02x?} by slice failed", u[i]), json!({"engine":"tbl","kind":"hash","x":u[i]}));
        }
    }
    col.samples.push(json!({"exhaustive_universe": "all 85 strings of length <= 3 over {00,61,62,ff}: every ordered pair, every representation, every impl",
        "example_pair": [u[5], u[21]]}));
    // random pairs
    let mut s = [0u8; 32];
    s[..8].copy_from_slice(&seed.to_le_bytes());
    s[8..16].copy_from_slice(&worker.to_le_bytes());
    s[16] = 14;
    let mut runner = TestRunner::new_with_rng(
        Config { cases: cases as u32, failure_persistence: None, rng_seed: RngSeed::Fixed(seed), max_shrink_iters: 2000, ..Config::default() },
        TestRng::from_seed(RngAlgorithm::ChaCha, &s),
    );
    let cell = std::cell::RefCell::new(&mut *col);
    let res = runner.run(&pair_strategy(), |(x, y)| {
        let mut c = cell.borrow_mut();
        let before = c.viols.len();
        cmp_pair(&mut c, &x, &y, &bytes_reps(&x), &bytes_reps(&y), &mut_reps(&x), &mut_reps(&y));
        hash_one(&mut c, &x, &bytes_reps(&x), &mut_reps(&x));
        if c.samples.len() < 4 {
            c.samples.push(json!({"x": x, "y": y}));
        }
        if c.viols.len() > before {
            Err(TestCaseError::fail("cmp"))
        } else {
            Ok(())
        }
    });
    drop(cell);
    if let Err(TestError::Fail(_, (x, y))) = res {
        // keep the shrunk pair as the replay of the first violation of each signature
        let mut c2 = TCol::new();
        cmp_pair(&mut c2, &x, &y, &bytes_reps(&x), &bytes_reps(&y), &mut_reps(&x), &mut_reps(&y));
        hash_one(&mut c2, &x, &bytes_reps(&x), &mut_reps(&x));
        for v in c2.viols {
            if let Some(old) = col.viols.iter_mut().find(|o| o["oracle"] == v["oracle"] && o["lhs"] == v["lhs"] && o["rhs"] == v["rhs"]) {
                *old = v;
            } else {
                col.viols.push(v);
            }
        }
    }
}

pub fn main_tbl(args: &Args) -> i32 {
    util::silence_panics();
    crate::oalloc::set_passthrough(false);
    let prop = args.str("prop", "C14");
    let mut col = TCol::new();
    if prop == "C14" {
        run_c14(args, &mut col);
    } else {
        crate::tbl15::run_c15(args, &mut col);
    }
    if let Some(p) = args.kv.get("hashes-out") {
        util::write_hashes(p, &col.nontriv);
    }
    let out = json!({
        "engine": "tbl", "property": prop, "profile": util::profile_name(),
        "evaluations": col.evals,
        "nontrivial_distinct_this_worker": col.nontriv.len(),
        "histogram": {"per_impl_or_path": col.per_impl},
        "samples": col.samples,
        "violations": col.viols,
        "exhaustive": [{"space": if prop == "C14" { "85x85 ordered pairs of the length<=3 universe x all representations x all impls" } else { "all 256 single bytes and all 65536 byte pairs x {Bytes, BytesMut} x {Debug, alt Debug, lower hex, upper hex, serde entry points}" },
            "histories_this_worker": 0, "histories_total": 0, "complete": col.viols.is_empty() && !args.has("replay")}],
    });
    println!("{}", out);
    if col.viols.is_empty() {
        0
    } else {
        1
    }
}
