//! vf: the verification engines for tokio-rs/bytes (see /verif/DESIGN.md). The library holds the
//! engines; the `vf` binary installs the oracle allocator and dispatches sub-commands; the fuzz
//! targets under fuzz/ link the library without the oracle allocator (ASan sees exact blocks).
#![allow(clippy::all)]
#![allow(dead_code)]

pub mod bufeng;
pub mod bufmut;
pub mod bufnode;
pub mod bufrun;
pub mod digest;
pub mod fault;
pub mod hist;
pub mod histrun;
pub mod oalloc;
pub mod recycle;
pub mod tbl;
pub mod tbl15;
pub mod util;
