//! Engine D (C16): emits per-case digests of every observable result for a fixed, seed-determined
//! list of cases. The driver runs this binary in 12 configurations ({even, odd} allocator parity x
//! {dbg, rel} profile x {default, no-default-features, extra-platforms} feature set) and requires
//! all digests to be equal.

use crate::bufeng::*;
use crate::bufnode::GETTERS;
use crate::bufrun::{bcase_strategy, c10_entries, run_bcase, BCase};
use crate::bufmut::{run_wcase_dg, wcase_strategy, WCase, WStats};
use crate::hist::*;
use crate::histrun::{case_from_json, case_json, case_strategy, Case};
use crate::oalloc;
use crate::util::{self, Args};
use proptest::strategy::{Strategy, ValueTree};
use proptest::test_runner::{Config, RngAlgorithm, TestRng, TestRunner};
use serde_json::{json, Value};
use std::panic::{catch_unwind, AssertUnwindSafe};

fn gen_cases(seed: u64, n: usize) -> Vec<Case> {
    let mut out = Vec::with_capacity(n);
    for (pi, prop) in ["C13", "C04", "C01"].iter().enumerate() {
        let strat = case_strategy(prop, 30);
        let mut s = [0u8; 32];
        s[..8].copy_from_slice(&seed.to_le_bytes());
        s[8] = pi as u8;
        s[9] = 0xD1;
        let mut runner = TestRunner::new_with_rng(Config::default(), TestRng::from_seed(RngAlgorithm::ChaCha, &s));
        for _ in 0..n / 3 {
            if let Ok(t) = strat.new_tree(&mut runner) {
                out.push(t.current());
            }
        }
    }
    out
}

/// per-step digests of one history; `None` entries never occur, a crash kills the process
pub fn hist_digest(c: &Case, parity: usize) -> (Vec<u64>, bool, bool) {
    oalloc::set_parity(parity);
    oalloc::set_quarantine(true);
    oalloc::case_begin();
    let mut st = Stats::default();
    let mut it = Interp::new(&mut st, &RunOpts { trace: false, digest: true });
    it.run(&c.ops, c.perm);
    let slots = std::mem::take(&mut it.slots);
    let _ = call(move || drop(slots));
    let d = it.digest.take().unwrap_or_default();
    // a case that ended early because an oracle fired is marked: its digest stops there in every
    // configuration in which the oracle fires, which is itself an observable difference
    let ended = it.ended;
    let f = it.flags;
    let promotable = c.ops.iter().any(|o| matches!(o.k, k::NewFromVec | k::NewFromBox | k::NewCopy | k::NewFromString | k::MFreeze | k::VIntoBytes));
    let nt = promotable && (f.panics > 0 || f.reserve_past_early);
    drop(it);
    let _ = oalloc::case_end();
    let mut v = Vec::new();
    oalloc::take_violations(&mut v);
    (d, ended, nt)
}

fn fold(v: &[u64]) -> u64 {
    let mut h: u64 = 0xcbf29ce484222325;
    for x in v {
        h ^= *x;
        h = h.wrapping_mul(0x100000001b3);
        h ^= h >> 29;
    }
    h ^ (v.len() as u64)
}

/// outcome digest of one typed read on one tree
fn read_digest(c: &BCase) -> u64 {
    let mut arena = Arena::default();
    let (mut node, _m) = build(&c.spec, &mut arena);
    let mut h: u64 = 0x9E3779B97F4A7C15;
    let mut mix = |x: u64| {
        h ^= x;
        h = h.wrapping_mul(0x100000001b3);
        h ^= h >> 31;
    };
    for op in &c.ops {
        let (code, a, b) = (*op).clone();
        match code {
            1 => {
                let r = catch_unwind(AssertUnwindSafe(|| bytes::Buf::advance(&mut node, 1)));
                mix(r.is_ok() as u64);
            }
            6 => {
                let g = &GETTERS[a as usize % GETTERS.len()];
                let r = catch_unwind(AssertUnwindSafe(|| (g.get)(&mut node, b as usize)));
                match r {
                    Ok(v) => {
                        mix(1);
                        mix(v as u64);
                        mix((v >> 64) as u64);
                    }
                    Err(_) => mix(2),
                }
            }
            7 => {
                let g = &GETTERS[a as usize % GETTERS.len()];
                let r = catch_unwind(AssertUnwindSafe(|| (g.try_get)(&mut node, b as usize)));
                match r {
                    Ok(Ok(v)) => {
                        mix(3);
                        mix(v as u64);
                        mix((v >> 64) as u64);
                    }
                    Ok(Err((rq, av))) => {
                        mix(4);
                        mix(rq as u64);
                        mix(av as u64);
                    }
                    Err(_) => mix(5),
                }
            }
            _ => {}
        }
        let rem = catch_unwind(AssertUnwindSafe(|| bytes::Buf::remaining(&node))).unwrap_or(usize::MAX);
        mix(rem as u64);
    }
    h
}

fn gen_b(seed: u64, n: usize) -> (Vec<BCase>, Vec<WCase>) {
    let mut s = [0u8; 32];
    s[..8].copy_from_slice(&seed.to_le_bytes());
    s[9] = 0xD2;
    let mut runner = TestRunner::new_with_rng(Config::default(), TestRng::from_seed(RngAlgorithm::ChaCha, &s));
    let (bs, ws) = (bcase_strategy("C12"), wcase_strategy("C11"));
    let mut b = Vec::new();
    let mut w = Vec::new();
    for _ in 0..n {
        if let Ok(t) = bs.new_tree(&mut runner) {
            b.push(t.current());
        }
        if let Ok(t) = ws.new_tree(&mut runner) {
            w.push(t.current());
        }
    }
    // enumerated edge table, read side: every leaf kind (cursor kinds become slices in digest mode) x a few wrappers x the
    // operations that ask for more than there is - which of them panic, and what the buffer looks like right afterwards
    for kind in 0..NKINDS {
        for n in [0usize, 5, 11] {
            let leaf = Spec::Leaf { kind, data: (0..n).map(|i| 0x11u8.wrapping_add(i as u8 * 3) | 1).collect(), pre: 2 };
            let specs = [
                leaf.clone(),
                Spec::MutRef(Box::new(leaf.clone())),
                Spec::Boxed(Box::new(leaf.clone())),
                Spec::Take(Box::new(leaf.clone()), usize::MAX),
                Spec::Take(Box::new(leaf.clone()), 3),
                Spec::Chain(Box::new(leaf.clone()), Box::new(Spec::Leaf { kind: 0, data: vec![0x71, 0x73], pre: 0 })),
            ];
            for spec in specs {
                // a = 5: remaining + 1, a = 11: usize::MAX (sel_n); ops: advance, copy_to_slice, try_copy_to_slice, copy_to_bytes
                for code in [1u8, 3, 4, 5] {
                    for a in [5u32, 11] {
                        b.push(BCase { spec: spec.clone(), ops: vec![(code, a, 0)] });
                    }
                }
                // a typed read that needs more bytes than there are, after consuming all but one
                b.push(BCase { spec: spec.clone(), ops: vec![(1, 7, 0), (6, 7, 0)] });
                b.push(BCase { spec: spec.clone(), ops: vec![(1, 7, 0), (7, 7, 0)] });
            }
        }
    }
    // enumerated edge table (same in every run): writes that cannot fit, on every kind of target and through every wrapper -
    // the calls whose outcome (panic vs. wrapped arithmetic) depends on overflow checks
    use crate::bufmut::{WSpec, WKINDS};
    for kind in 0..WKINDS {
        for size in [0usize, 8, 40] {
            for prefill in [0usize, 1, 5] {
                let leaf = WSpec::Leaf { kind, size, prefill };
                let specs = [
                    leaf.clone(),
                    WSpec::MutRef(Box::new(leaf.clone())),
                    WSpec::Boxed(Box::new(leaf.clone())),
                    WSpec::Limit(Box::new(leaf.clone()), usize::MAX),
                    WSpec::Limit(Box::new(leaf.clone()), 3),
                ];
                for spec in specs {
                    for bsel in [0u32, 1] {
                        // op 2 with a % 61 == 9: put_bytes(remaining_mut() + 1) / put_bytes(usize::MAX)
                        w.push(WCase { spec: spec.clone(), ops: vec![(2, 9, bsel, 0)] });
                    }
                    // put_slice / put_u64 of one byte more than the room (fixed targets: must panic; growable: appended)
                    w.push(WCase { spec: spec.clone(), ops: vec![(1, 6, 0, 0)] });
                    w.push(WCase { spec: spec.clone(), ops: vec![(0, 3, 0, 5)] });
                }
            }
        }
    }
    (b, w)
}

pub fn features_name() -> &'static str {
    if cfg!(feature = "bextra") {
        "extra-platforms"
    } else if cfg!(feature = "bstd") {
        "default"
    } else {
        "no-default-features"
    }
}

/// A panic that escapes the interpreter while a case is executed or observed (for instance because an earlier call left a
/// handle in a state nothing can be read from) is an observable result of that configuration like any other: the case gets
/// this marker as its digest instead of ending the process.
const ESCAPED: u64 = 0xE5CA_9ED0_E5CA_9ED0;
fn guarded<T>(f: impl FnOnce() -> T, on_escape: T) -> T {
    match std::panic::catch_unwind(std::panic::AssertUnwindSafe(f)) {
        Ok(v) => v,
        Err(_) => {
            crate::oalloc::leave(0);
            on_escape
        }
    }
}

pub fn main_digest(args: &Args) -> i32 {
    util::install_crash_reporter();
    util::silence_panics();
    util::CASE_ALARM_SECS.store(15, std::sync::atomic::Ordering::Relaxed); // digest cases are tiny; a stuck one shows up as a difference
    crate::bufeng::DIGEST_MODE.store(true, std::sync::atomic::Ordering::SeqCst);
    let seed = args.u64("seed", 1);
    let n = args.usize("cases", 3000);
    let parity = if args.str("parity", "even") == "odd" { 1 } else { 0 };
    if let Some(path) = args.kv.get("replay") {
        // prints the per-step digests of one saved case (the driver diffs them across configurations)
        let v: Value = serde_json::from_str(&std::fs::read_to_string(path).unwrap_or_default()).unwrap_or(Value::Null);
        if v.get("engine").and_then(|e| e.as_str()) == Some("bufmut") {
            let Some(c) = WCase::from_json(&v) else { return 2 };
            let mut st = WStats::default();
            let d = guarded(|| run_wcase_dg(&c, &mut st, false).4, ESCAPED);
            println!("{}", json!({"steps": [d.to_string()], "config": format!("{}/{}/{}", util::profile_name(), features_name(), parity)}));
            return 0;
        }
        if v.get("engine").and_then(|e| e.as_str()) == Some("buf") {
            let Some(c) = BCase::from_json(&v) else { return 2 };
            let mut st = BStats::default();
            let d = guarded(|| run_bcase(&c, &mut st, false).dg, ESCAPED);
            println!("{}", json!({"steps": [guarded(|| read_digest(&c), ESCAPED).to_string(), d.to_string()], "config": format!("{}/{}/{}", util::profile_name(), features_name(), parity)}));
            return 0;
        }
        let Some((c, _)) = case_from_json(&v) else { return 2 };
        util::set_current_case(&case_json(&c, parity).to_string());
        let (d, ended, _) = guarded(|| hist_digest(&c, parity), (vec![ESCAPED], true, false));
        println!("{}", json!({"steps": d.iter().map(|x| x.to_string()).collect::<Vec<_>>(), "ended_by_oracle": ended, "config": format!("{}/{}/{}", util::profile_name(), features_name(), parity)}));
        return 0;
    }
    let cases = gen_cases(seed, n);
    let mut hist: Vec<String> = Vec::with_capacity(cases.len());
    let mut hist_nt: Vec<u8> = Vec::with_capacity(cases.len());
    let mut steps_total = 0u64;
    let mut panics_marked = 0u64;
    for c in &cases {
        util::set_current_case(&case_json(c, parity).to_string());
        let (d, ended, nt) = guarded(|| hist_digest(c, parity), (vec![ESCAPED], true, false));
        steps_total += d.len() as u64;
        panics_marked += ended as u64;
        hist_nt.push(nt as u8);
        hist.push(format!("{:016x}", fold(&d)));
    }
    // typed reads: the enumerated C10 table (1 worker slice of it, selected by the seed)
    let mut reads: Vec<String> = Vec::new();
    let stride = args.u64("read-stride", 7).max(1);
    c10_entries(false, |idx, c1, c2| {
        if idx % stride == seed % stride {
            reads.push(format!("{:016x}", guarded(|| read_digest(&c1), ESCAPED)));
            reads.push(format!("{:016x}", guarded(|| read_digest(&c2), ESCAPED)));
        }
        true
    });
    // adapter trees (read side) and write-target trees, restricted to the API present in every feature set
    let (bcases, wcases) = gen_b(seed, n / 2);
    if args.has("dump-cases") {
        let dump: Vec<Value> = cases.iter().map(|c| case_json(c, parity)).collect();
        println!("{}", json!({"cases": dump, "buf_cases": bcases.iter().map(|c| c.to_json()).collect::<Vec<_>>(), "bufmut_cases": wcases.iter().map(|c| c.to_json()).collect::<Vec<_>>()}));
        return 0;
    }
    let mut bufd: Vec<String> = Vec::new();
    let mut bst = BStats::default();
    for c in &bcases {
        util::set_current_case(&c.to_json().to_string());
        bufd.push(format!("{:016x}", guarded(|| run_bcase(c, &mut bst, false).dg, ESCAPED)));
    }
    let mut wd: Vec<String> = Vec::new();
    let mut wst = WStats::default();
    for c in &wcases {
        util::set_current_case(&c.to_json().to_string());
        wd.push(format!("{:016x}", guarded(|| run_wcase_dg(c, &mut wst, false).4, ESCAPED)));
    }
    println!(
        "{}",
        json!({"engine": "digest", "config": {"profile": util::profile_name(), "features": features_name(), "parity": parity},
        "hist": hist, "hist_nontrivial": hist_nt, "reads": reads, "buf": bufd, "bufmut": wd, "read_stride": stride, "steps_total": steps_total, "cases_ended_by_an_oracle": panics_marked})
    );
    0
}
