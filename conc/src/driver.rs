//! Program sets, schedule exploration (stateless DFS with optional preemption bound, random
//! schedules), reporting.

use crate::{execute, ExecOut, Program};
use proptest::prelude::*;
use proptest::test_runner::{Config, RngAlgorithm, RngSeed, TestCaseError, TestError, TestRng, TestRunner};
use serde_json::{json, Value};
use std::collections::{BTreeMap, HashMap, HashSet};

fn fnv64(data: &[u8]) -> u64 {
    let mut h: u64 = 0xcbf29ce484222325;
    for &b in data {
        h ^= b as u64;
        h = h.wrapping_mul(0x100000001b3);
    }
    h ^= h >> 32;
    h = h.wrapping_mul(0x9E3779B97F4A7C15);
    h ^ (h >> 29)
}

struct Args {
    kv: HashMap<String, String>,
}
impl Args {
    fn parse() -> Args {
        let v: Vec<String> = std::env::args().skip(1).collect();
        let mut kv = HashMap::new();
        let mut i = 0;
        while i < v.len() {
            if let Some(k) = v[i].strip_prefix("--") {
                if i + 1 < v.len() && !v[i + 1].starts_with("--") {
                    kv.insert(k.to_string(), v[i + 1].clone());
                    i += 1;
                } else {
                    kv.insert(k.to_string(), "1".into());
                }
            }
            i += 1;
        }
        Args { kv }
    }
    fn u64(&self, k: &str, d: u64) -> u64 {
        self.kv.get(k).and_then(|s| s.parse().ok()).unwrap_or(d)
    }
    fn str(&self, k: &str, d: &str) -> String {
        self.kv.get(k).cloned().unwrap_or_else(|| d.to_string())
    }
}

pub struct Col {
    prop: String,
    execs: u64,
    programs: u64,
    exhaustive_programs: u64,
    capped_programs: u64,
    nontriv: HashSet<u64>,
    aborted: u64,
    viols: Vec<Value>,
    samples: Vec<Value>,
    stats: BTreeMap<&'static str, u64>,
    per_repr: [u64; 7],
}

fn violations_of(prop: &str, out: &ExecOut) -> Option<(String, String)> {
    for v in &out.report.violations {
        if v.prop == prop {
            return Some((v.kind.to_string(), v.detail.clone()));
        }
    }
    if prop == "C05" && !out.report.aborted {
        if let Some(b) = out.report.leaked.first() {
            return Some(("leak".into(), format!("{} block(s) never freed; first: #{} {} bytes align {}", out.report.leaked.len(), b.serial, b.size, b.align)));
        }
        if let Some(d) = out.owner_drops {
            if d != 1 {
                return Some(("owner-drop-count".into(), format!("owner dropped {} times", d)));
            }
        }
    }
    None
}

impl Col {
    fn note(&mut self, p: &Program, out: &ExecOut) {
        self.execs += 1;
        let s = &out.report.stats;
        *self.stats.entry("atomic_ops").or_insert(0) += s.atomic_ops;
        *self.stats.entry("promotion CAS lost (loser path)").or_insert(0) += s.cas_failed as u64;
        *self.stats.entry("last reference released by a thread other than the allocating one").or_insert(0) += s.last_ref_by_other_thread as u64;
        *self.stats.entry("frees").or_insert(0) += s.frees as u64;
        *self.stats.entry("cross-thread frees").or_insert(0) += s.cross_thread_frees as u64;
        *self.stats.entry("frees / exclusive writes that needed a cross-thread release->acquire edge").or_insert(0) += s.needed_edges as u64;
        *self.stats.entry("zero-copy exclusive acquisitions").or_insert(0) += s.exclusive_acquired as u64;
        *self.stats.entry("conversion / reclaim attempts").or_insert(0) += s.exclusive_attempts as u64;
        *self.stats.entry("buffer reads checked").or_insert(0) += s.reads as u64;
        *self.stats.entry("exclusive writes performed").or_insert(0) += s.writes as u64;
        *self.stats.entry("loads that had more than one value to read (C11 coherence)").or_insert(0) += s.loads_with_a_choice as u64;
        *self.stats.entry("loads that were given an older value").or_insert(0) += s.stale_loads as u64;
        if out.report.aborted {
            self.aborted += 1;
        }
        let nt = if self.prop == "C06" { s.needed_edges > 0 } else { s.cas_failed > 0 || s.last_ref_by_other_thread > 0 || s.exclusive_attempts >= 2 || (s.exclusive_acquired > 0 && s.cross_thread_frees > 0) };
        if nt {
            let mut key = p.to_json().to_string().into_bytes();
            for d in &out.report.decisions {
                key.push(d.1);
            }
            if self.nontriv.insert(fnv64(&key)) && self.samples.len() < 4 && self.nontriv.len() % 211 == 1 {
                self.samples.push(json!({"program": p.to_json(), "what": p.describe(), "schedule": out.report.decisions.iter().map(|d| d.1).collect::<Vec<_>>(),
                    "promotion_cas_lost": s.cas_failed, "needed_edges": s.needed_edges, "exclusive_acquired": s.exclusive_acquired}));
            }
        }
    }

    fn record(&mut self, p: &Program, schedule: &[u8], v: (String, String), how: &str, max_preempt: u32) {
        let out = execute(p, schedule.to_vec(), max_preempt, true);
        let mut trace = vec![p.describe(), format!("schedule choices: {:?} (preemption bound {})", schedule, max_preempt)];
        trace.extend(out.report.trace.iter().cloned());
        for x in &out.report.violations {
            trace.push(format!("!! {} [{}] {}", x.prop, x.kind, x.detail));
        }
        self.viols.push(json!({"property": self.prop, "oracle": v.0, "detail": v.1, "op": p.describe(), "found_by": how, "profile": "conc",
            "replay": {"engine": "conc", "program": p.to_json(), "schedule": schedule, "max_preempt": max_preempt, "max_stale": portable_atomic::rt::MAX_STALE.load(std::sync::atomic::Ordering::Relaxed)}, "trace": trace}));
    }

    /// explore the schedules of one program; returns the failing schedule if the property is violated
    fn explore(&mut self, p: &Program, cap: u64, count: bool) -> Option<(Vec<u8>, (String, String), u32)> {
        // pass 1: full DFS; if it does not finish within `cap`, pass 2: preemption-bounded DFS
        for (pass, bound) in [(0, u32::MAX), (1, 2)] {
            let mut prefix: Vec<u8> = Vec::new();
            let mut n = 0u64;
            let mut complete = false;
            loop {
                let out = execute(p, prefix.clone(), bound, false);
                n += 1;
                if count {
                    self.note(p, &out);
                }
                if let Some(v) = violations_of(&self.prop, &out) {
                    let sched: Vec<u8> = out.report.decisions.iter().map(|d| d.1).collect();
                    return Some((sched, v, bound));
                }
                let d = &out.report.decisions;
                let mut i = d.len();
                let mut next = None;
                while i > 0 {
                    i -= 1;
                    if d[i].1 + 1 < d[i].0 {
                        let mut np: Vec<u8> = d[..i].iter().map(|x| x.1).collect();
                        np.push(d[i].1 + 1);
                        next = Some(np);
                        break;
                    }
                }
                match next {
                    Some(np) => prefix = np,
                    None => {
                        complete = true;
                        break;
                    }
                }
                if n >= cap {
                    break;
                }
            }
            if complete {
                if count {
                    if pass == 0 {
                        self.exhaustive_programs += 1;
                    } else {
                        self.capped_programs += 1;
                    }
                }
                return None;
            }
        }
        if count {
            self.capped_programs += 1;
        }
        None
    }
}

// ------------------------------------------------------------------------------------------------
// program sets

/// what a thread may hold for each storage representation
fn handle_kinds(repr: u8) -> &'static [u8] {
    match repr {
        2 => &[0, 1, 2, 3, 4],
        4 => &[0, 1],
        _ => &[0, 1, 4],
    }
}
/// ops that make sense for a thread with handle kind h
fn ops_for(h: u8) -> &'static [u8] {
    match h {
        1 => &[0, 2, 4, 5, 6, 3, 12],       // &Bytes: clone through it, read, is_unique, then drop / convert the clone
        2 => &[2, 8, 9, 4, 11, 6, 13],      // BytesMut half (6 = Into<Vec<u8>> of the BytesMut, 13 = split it again)
        _ => &[1, 2, 3, 4, 5, 6, 7, 10, 12], // own Bytes
    }
}

fn seqs(alpha: &[u8], max: usize) -> Vec<Vec<u8>> {
    let mut out = vec![vec![]];
    let mut layer = vec![vec![]];
    for _ in 0..max {
        let mut next = Vec::new();
        for s in &layer {
            for &a in alpha {
                let mut t: Vec<u8> = s.clone();
                t.push(a);
                next.push(t);
            }
        }
        out.extend(next.iter().cloned());
        layer = next;
    }
    out
}

/// all programs with 2 threads x <= `max_ops` ops on every representation
pub fn exhaustive_set(max_ops: usize) -> Vec<Program> {
    let mut v = Vec::new();
    for repr in 0..7u8 {
        for odd in [false, true] {
            if odd && !matches!(repr, 0 | 5 | 6) {
                continue;
            }
            let hk = handle_kinds(repr);
            for &h1 in hk {
                for &h2 in hk {
                    // at most one thread can take the tail half / the base itself
                    if (h1 == h2 && (h1 == 4 || h1 == 2 || h1 == 3)) || (h1 == 4 && h2 == 1) || (h1 == 1 && h2 == 4) {
                        continue;
                    }
                    if (h1 == 2 || h1 == 3) && (h2 == 2 || h2 == 3) {
                        continue;
                    }
                    for o1 in seqs(ops_for(h1), max_ops) {
                        for o2 in seqs(ops_for(h2), max_ops) {
                            if o1.is_empty() && o2.is_empty() {
                                continue;
                            }
                            for mf in [vec![], vec![5u8], vec![6u8]] {
                                if !mf.is_empty() && (h1 == 4 || h2 == 4) {
                                    continue;
                                }
                                v.push(Program { repr, odd, threads: vec![(h1, o1.clone()), (h2, o2.clone())], main_final: mf });
                            }
                        }
                    }
                }
            }
        }
    }
    v
}

pub fn curated() -> Vec<Program> {
    let p = |repr: u8, odd: bool, t: Vec<(u8, Vec<u8>)>, mf: Vec<u8>| Program { repr, odd, threads: t, main_final: mf };
    vec![
        // two clones through one &Bytes, then drop (the promotion race) - even and odd
        p(0, false, vec![(1, vec![0, 2, 4]), (1, vec![0, 2, 4])], vec![2]),
        p(0, true, vec![(1, vec![0, 2, 4]), (1, vec![0, 2, 4])], vec![2]),
        // promotion race, then competing conversions of the clones
        p(0, false, vec![(1, vec![0, 6]), (1, vec![0, 5])], vec![5]),
        p(0, true, vec![(1, vec![0, 7]), (1, vec![0, 6])], vec![6]),
        // a frozen half dropped on one thread while the other reclaims and overwrites
        p(2, false, vec![(4, vec![2, 4]), (2, vec![9, 8, 2])], vec![]),
        p(2, false, vec![(4, vec![2, 4]), (2, vec![8, 2])], vec![]),
        // a BytesMut half converted into a Vec (copying while the frozen half lives) while the frozen half is dropped / converted elsewhere
        p(2, false, vec![(4, vec![2, 4]), (2, vec![6])], vec![]),
        p(2, false, vec![(4, vec![5, 2]), (2, vec![2, 6])], vec![]),
        p(2, false, vec![(0, vec![4]), (2, vec![6]), (4, vec![4])], vec![]),
        // the BytesMut half is split again after the frozen half was read and dropped elsewhere, then reclaims / converts
        p(2, false, vec![(4, vec![2, 4]), (2, vec![13, 8, 2])], vec![]),
        p(2, false, vec![(4, vec![2, 4]), (2, vec![13, 6])], vec![]),
        p(2, false, vec![(0, vec![2, 4]), (2, vec![13, 13, 9]), (4, vec![4])], vec![]),
        // two competing Vec::from / try_into_mut on the last two references
        p(1, false, vec![(0, vec![2, 6]), (4, vec![2, 6])], vec![]),
        p(1, false, vec![(0, vec![5, 2]), (4, vec![5, 2])], vec![]),
        p(2, false, vec![(0, vec![2, 7]), (4, vec![6])], vec![]),
        p(0, false, vec![(0, vec![6]), (4, vec![2, 5])], vec![]),
        // owner: last reference released on another thread
        p(3, false, vec![(0, vec![2, 4]), (4, vec![3, 2, 4])], vec![]),
        p(3, false, vec![(1, vec![0, 2, 6]), (1, vec![0, 3, 4])], vec![6]),
        // promotion race on a handle whose view does not start at the buffer start
        p(5, false, vec![(1, vec![0, 2, 4]), (1, vec![0, 2, 6])], vec![2]),
        p(5, true, vec![(1, vec![0, 2]), (1, vec![0, 2]), (1, vec![0, 2, 4])], vec![6]),
        p(6, false, vec![(1, vec![0, 2, 7]), (1, vec![0, 2, 4])], vec![5]),
        // is_unique() through a &Bytes while another thread makes the first clone (promotion) through the same &Bytes
        p(0, false, vec![(1, vec![12, 2]), (1, vec![0, 2, 4])], vec![2]),
        p(0, true, vec![(1, vec![12, 12]), (1, vec![0, 4])], vec![5]),
        p(6, false, vec![(1, vec![12]), (1, vec![0, 12, 4])], vec![6]),
        p(1, false, vec![(0, vec![12, 4]), (4, vec![12, 5])], vec![]),
        // three threads
        p(0, false, vec![(1, vec![0, 2]), (1, vec![0, 4]), (1, vec![0, 6])], vec![5]),
        p(2, false, vec![(0, vec![2, 4]), (2, vec![8, 2]), (4, vec![3, 4, 4])], vec![]),
        p(1, false, vec![(0, vec![1, 4, 6]), (0, vec![5]), (4, vec![7])], vec![]),
    ]
}

fn program_strategy() -> BoxedStrategy<Program> {
    (0u8..7, any::<bool>(), 2usize..=3, proptest::collection::vec((0u8..5, proptest::collection::vec(0u8..14, 0..=3)), 3), proptest::collection::vec(prop_oneof![Just(2u8), Just(5u8), Just(6u8), Just(7u8)], 0..=1))
        .prop_map(|(repr, odd, nt, mut threads, main_final)| {
            threads.truncate(nt);
            let hk = handle_kinds(repr);
            let mut took_base = false;
            let mut took_tail = false;
            let mut any_ref = false;
            let mut out = Vec::new();
            for (h, ops) in threads {
                let mut h = hk[h as usize % hk.len()];
                if h == 4 && (took_base || any_ref) {
                    h = 0;
                }
                if (h == 2 || h == 3) && took_tail {
                    h = 0;
                }
                if h == 1 && took_base {
                    h = 0;
                }
                took_base |= h == 4;
                took_tail |= h == 2 || h == 3;
                any_ref |= h == 1;
                let alpha = ops_for(h);
                out.push((h, ops.iter().map(|o| alpha[*o as usize % alpha.len()]).collect()));
            }
            Program { repr, odd: odd && matches!(repr, 0 | 5 | 6), threads: out, main_final: if took_base { vec![] } else { main_final } }
        })
        .boxed()
}

pub fn main() -> i32 {
    std::panic::set_hook(Box::new(|info| {
        if let Some(l) = info.location() {
            if l.file().starts_with("src/") || l.file().contains("pa-shim") {
                eprintln!("harness panic at {}:{}: {:?}", l.file(), l.line(), info.payload().downcast_ref::<&str>());
            }
        }
    }));
    let args = Args::parse();
    if args.u64("litmus", 0) == 1 {
        let f = crate::litmus();
        for x in &f {
            println!("LITMUS-FAILED {}", x);
        }
        println!("litmus: {} expectation(s) failed", f.len());
        return if f.is_empty() { 0 } else { 2 };
    }
    let prop = args.str("prop", "C05");
    let seed = args.u64("seed", 1);
    let worker = args.u64("worker", 0);
    let workers = args.u64("workers", 1).max(1);
    let cap = args.u64("cap", 3000);
    // loads that may return an older value than the newest one (C11 allows it), per execution
    portable_atomic::rt::MAX_STALE.store(args.u64("max-stale", 1) as u32, std::sync::atomic::Ordering::Relaxed);
    let mut col = Col { prop: prop.clone(), execs: 0, programs: 0, exhaustive_programs: 0, capped_programs: 0, nontriv: HashSet::new(), aborted: 0, viols: vec![], samples: vec![], stats: BTreeMap::new(), per_repr: [0; 7] };

    if let Some(path) = args.kv.get("replay") {
        let v: Value = serde_json::from_str(&std::fs::read_to_string(path).unwrap_or_default()).unwrap_or(Value::Null);
        let Some(p) = Program::from_json(&v["program"]) else { return 2 };
        let sched: Vec<u8> = v["schedule"].as_array().map(|a| a.iter().map(|x| x.as_u64().unwrap_or(0) as u8).collect()).unwrap_or_default();
        let mp = v["max_preempt"].as_u64().unwrap_or(u32::MAX as u64) as u32;
        portable_atomic::rt::MAX_STALE.store(v["max_stale"].as_u64().unwrap_or(0) as u32, std::sync::atomic::Ordering::Relaxed);
        let out = execute(&p, sched.clone(), mp, true);
        col.note(&p, &out);
        let mut trace = vec![p.describe()];
        trace.extend(out.report.trace.iter().cloned());
        if let Some(vv) = violations_of(&prop, &out) {
            col.record(&p, &sched, vv, "replay", mp);
        }
        println!("{}", json!({"evaluations": 1, "violations": col.viols, "trace": trace}));
        return if col.viols.is_empty() { 0 } else { 1 };
    }

    let mut failed = false;
    let mut exhaustive = Vec::new();
    // ---- curated programs (every worker explores a slice)
    let mut set: Vec<Program> = curated();
    let ex_ops = args.u64("exhaustive-ops", 1) as usize;
    let stride = args.u64("exhaustive-stride", 1).max(1);
    let ex1 = exhaustive_set(1);
    let n1 = ex1.len();
    set.extend(ex1);
    let mut ex_total = n1;
    if ex_ops >= 2 {
        let ex = exhaustive_set(ex_ops);
        ex_total = ex.len();
        for (i, p) in ex.into_iter().enumerate() {
            if (i as u64) % stride == seed % stride && p.threads.iter().any(|t| t.1.len() >= 2) {
                set.push(p);
            }
        }
    }
    let mut ex_done = 0u64;
    for (i, p) in set.iter().enumerate() {
        if (i as u64) % workers != worker {
            continue;
        }
        col.programs += 1;
        col.per_repr[p.repr as usize % 7] += 1;
        ex_done += 1;
        if let Some((sched, v, mp)) = col.explore(p, cap, true) {
            col.record(p, &sched, v, "enumerated program x enumerated schedules", mp);
            failed = true;
            break;
        }
    }
    exhaustive.push(json!({"space": format!("{} curated programs + all {} two-thread programs with <= 1 op per thread + every {}th of the {} two-thread programs with <= {} ops per thread, on 7 representations (promotable also at odd addresses); per program all interleavings of atomic steps (stateless DFS), or all with <= 2 preemptions when the full set exceeds {} executions", curated().len(), n1, stride, ex_total, ex_ops, cap),
        "histories_this_worker": ex_done, "histories_total": set.len(), "complete": !failed}));

    // ---- random larger programs (proptest, shrunk on failure)
    let cases = args.u64("cases", 50);
    if cases > 0 && !failed {
        let mut s = [0u8; 32];
        s[..8].copy_from_slice(&seed.to_le_bytes());
        s[8..16].copy_from_slice(&worker.to_le_bytes());
        s[16] = if prop == "C06" { 6 } else { 5 };
        let mut runner = TestRunner::new_with_rng(
            Config { cases: cases as u32, failure_persistence: None, max_shrink_iters: 60, rng_seed: RngSeed::Fixed(seed), ..Config::default() },
            TestRng::from_seed(RngAlgorithm::ChaCha, &s),
        );
        let cell = std::cell::RefCell::new((&mut col, false));
        let rcap = args.u64("random-cap", 400);
        let res = runner.run(&program_strategy(), |p| {
            let mut g = cell.borrow_mut();
            let counting = !g.1;
            if counting {
                g.0.programs += 1;
                g.0.per_repr[p.repr as usize % 7] += 1;
            }
            match g.0.explore(&p, rcap, counting) {
                Some(_) => {
                    g.1 = true;
                    Err(TestCaseError::fail("conc"))
                }
                None => Ok(()),
            }
        });
        drop(cell);
        if let Err(TestError::Fail(_, p)) = res {
            if let Some((sched, v, mp)) = col.explore(&p, rcap, false) {
                col.record(&p, &sched, v, "random program (shrunk by proptest) x enumerated schedules", mp);
            }
        }
    }
    if let Some(pth) = args.kv.get("hashes-out") {
        use std::io::Write;
        if let Ok(f) = std::fs::File::create(pth) {
            let mut w = std::io::BufWriter::new(f);
            for h in &col.nontriv {
                let _ = w.write_all(&h.to_le_bytes());
            }
        }
    }
    // every worker re-checks the memory-model layer itself (which values loads may return, which edges acquire loads gain)
    let keep = portable_atomic::rt::MAX_STALE.load(std::sync::atomic::Ordering::Relaxed);
    let lit = crate::litmus();
    portable_atomic::rt::MAX_STALE.store(keep, std::sync::atomic::Ordering::Relaxed);
    for x in &lit {
        eprintln!("LITMUS-FAILED {}", x);
    }
    col.stats.insert("memory-model litmus expectations failed (must be 0)", lit.len() as u64);
    col.stats.insert("memory-model litmus runs", 1);
    let mut reprs = serde_json::Map::new();
    for (i, n) in crate::REPR_NAMES.iter().enumerate() {
        reprs.insert(n.to_string(), json!(col.per_repr[i]));
    }
    let out = json!({
        "engine": "conc", "property": prop, "profile": "conc", "seed": seed, "worker": worker,
        "evaluations": col.execs, "nontrivial_distinct_this_worker": col.nontriv.len(), "exhaustive": exhaustive,
        "histogram": {"programs": col.programs, "programs_with_all_interleavings_enumerated": col.exhaustive_programs, "programs_explored_with_preemption_bound_or_cap": col.capped_programs,
            "executions_stopped_by_step_budget": col.aborted, "programs_per_representation": reprs, "events": col.stats},
        "samples": col.samples, "violations": col.viols,
    });
    println!("{}", out);
    if col.viols.is_empty() {
        0
    } else {
        1
    }
}
