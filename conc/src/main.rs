//! Engine S: small multi-threaded programs over the unchanged crate x controlled schedules.
//! Functional oracle (C05) + vector-clock happens-before checker (C06), see pa-shim/src/rt.rs.

use bytes::{Bytes, BytesMut};
use portable_atomic::rt;
use serde_json::{json, Value};
use std::alloc::{GlobalAlloc, Layout, System};

use std::sync::atomic::{AtomicBool, AtomicUsize, Ordering};
use std::sync::Arc;

// ------------------------------------------------------------------------------------------------
// allocator: blocks born inside brackets of model threads are ghost locations of the execution; they
// are quarantined on free (poisoned by rt) and really released after the execution ended

static ODD: AtomicBool = AtomicBool::new(false);
struct CA;
unsafe impl GlobalAlloc for CA {
    unsafe fn alloc(&self, l: Layout) -> *mut u8 {
        if rt::tracking() {
            let shift = (l.align() == 1 && ODD.load(Ordering::Relaxed)) as usize;
            let real = Layout::from_size_align_unchecked(l.size() + 2, l.align().max(2));
            let p = System.alloc(real);
            if p.is_null() {
                return p;
            }
            let user = p.add(shift);
            rt::on_alloc(user as usize, l.size(), l.align());
            user
        } else {
            System.alloc(l)
        }
    }
    unsafe fn dealloc(&self, p: *mut u8, l: Layout) {
        if rt::on_dealloc(p as usize) {
            return; // quarantined: released by free_quarantined
        }
        System.dealloc(p, l)
    }
}
#[global_allocator]
static GA: CA = CA;

unsafe fn free_quarantined(q: &[(usize, usize, usize)]) {
    for &(base, size, align) in q {
        let shift = (align == 1 && ODD.load(Ordering::Relaxed)) as usize;
        let real = Layout::from_size_align_unchecked(size + 2, align.max(2));
        System.dealloc((base - shift) as *mut u8, real);
    }
}

// ------------------------------------------------------------------------------------------------
// program language

pub const OP_NAMES: [&str; 14] = [
    "clone via &Bytes", "clone own", "read+compare", "slice(1..)", "drop one", "try_into_mut (+write if Ok)", "Vec::from (Bytes or BytesMut; +write if zero-copy)", "BytesMut::from (+write if zero-copy)",
    "reserve(n) on BytesMut half (+fill spare)", "try_reclaim(n) on BytesMut half (+fill spare)", "truncate(1)", "unsplit(halves)/freeze", "is_unique()", "split_to(1) on BytesMut half, read + drop the part",
];
pub const HANDLE_NAMES: [&str; 5] = ["own clone", "&Bytes to main's handle", "BytesMut tail half", "frozen tail half", "the base handle itself (moved)"];
pub const REPR_NAMES: [&str; 7] = ["promotable (Box<[u8]>-backed, unshared)", "bytes.rs SHARED (Vec with spare)", "bytes_mut.rs SHARED (frozen head of a split BytesMut)", "owner", "static", "promotable, unshared, view advanced by 3", "frozen advanced BytesMut (promotable with a front offset)"];

#[derive(Clone, Debug, PartialEq, Eq, Hash)]
pub struct Program {
    pub repr: u8,
    pub odd: bool,
    pub threads: Vec<(u8, Vec<u8>)>, // (handle kind, ops)
    pub main_final: Vec<u8>,
}
impl Program {
    pub fn to_json(&self) -> Value {
        json!({"repr": self.repr, "odd": self.odd, "threads": self.threads.iter().map(|(h, o)| json!([h, o])).collect::<Vec<_>>(), "main_final": self.main_final})
    }
    pub fn from_json(v: &Value) -> Option<Program> {
        let threads = v["threads"]
            .as_array()?
            .iter()
            .map(|t| (t[0].as_u64().unwrap_or(0) as u8, t[1].as_array().map(|a| a.iter().map(|x| x.as_u64().unwrap_or(0) as u8).collect()).unwrap_or_default()))
            .collect();
        Some(Program {
            repr: v["repr"].as_u64()? as u8,
            odd: v["odd"].as_bool().unwrap_or(false),
            threads,
            main_final: v["main_final"].as_array().map(|a| a.iter().map(|x| x.as_u64().unwrap_or(0) as u8).collect()).unwrap_or_default(),
        })
    }
    pub fn describe(&self) -> String {
        let mut s = format!("storage: {}{}; ", REPR_NAMES[self.repr as usize % 7], if self.odd { " at an odd address" } else { "" });
        for (i, (h, ops)) in self.threads.iter().enumerate() {
            s += &format!("T{} holds {} and does [{}]; ", i + 1, HANDLE_NAMES[*h as usize % 5], ops.iter().map(|o| OP_NAMES[*o as usize % 14]).collect::<Vec<_>>().join(", "));
        }
        s += &format!("main after join: [{}]", self.main_final.iter().map(|o| OP_NAMES[*o as usize % 14]).collect::<Vec<_>>().join(", "));
        s
    }
}

const N: usize = 12; // bytes of the shared storage
static STATIC_DATA: [u8; N] = [11, 22, 33, 44, 55, 66, 77, 88, 99, 110, 121, 132];

struct TrackedOwner {
    buf: Vec<u8>,
    drops: Arc<AtomicUsize>,
}
impl AsRef<[u8]> for TrackedOwner {
    fn as_ref(&self) -> &[u8] {
        &self.buf
    }
}
impl Drop for TrackedOwner {
    fn drop(&mut self) {
        self.drops.fetch_add(1, Ordering::SeqCst);
    }
}

/// a handle together with what it must read
enum H {
    B(Bytes, Vec<u8>),
    M(BytesMut, Vec<u8>),
}

struct Local {
    hs: Vec<H>,
    base_ref: Option<usize>, // *const Bytes
    base_expect: Vec<u8>,
    tname: usize,
}

fn reg(p: usize) {
    rt::handle_add(p);
}
fn unreg(p: usize) {
    rt::handle_sub(p);
}

/// a zero-copy operation whose result is not at source address + offset: C05's "at the original address", and C07's address
/// guarantee for clone / slice / split - some of these placements only go wrong when a promotion race is lost, which the sequential
/// histories of C07's own engine never reach, so the C07 check runs a small job of this engine as well
fn addr_report(kind: &'static str, detail: String) {
    rt::report("C05", kind, detail.clone());
    rt::report("C07", kind, detail);
}

fn check_read(b: &[u8], expect: &[u8], who: usize, what: &str) {
    if !b.is_empty() {
        rt::touch_read(b.as_ptr() as usize);
    }
    wrong_bytes(who, &format!("{}: read", what), b, expect);
}

/// wrong contents are C05's "each thread reads the correct bytes"; when every wrong byte is the quarantine's poison value the bytes were
/// read out of a block that had already been freed, which is C06's "every read happens-before the deallocation" as well
fn wrong_bytes(who: usize, what: &str, got: &[u8], expect: &[u8]) {
    if got == expect {
        return;
    }
    rt::report("C05", "wrong-bytes-read", format!("thread {} {} {:02x?}, expected {:02x?}", who, what, &got[..got.len().min(12)], &expect[..expect.len().min(12)]));
    let wrong: Vec<u8> = got.iter().zip(expect.iter()).filter(|(g, e)| g != e).map(|(g, _)| *g).collect();
    if !wrong.is_empty() && wrong.iter().all(|&g| g == 0xDD) && got.len() == expect.len() {
        rt::report("C06", "read-of-freed-memory", format!("thread {} {} {:02x?}: every wrong byte is the poison value written when the block was freed, so the read came after the deallocation", who, what, &got[..got.len().min(12)]));
    }
}

fn exclusive_write(ptr: usize, region: &mut [u8], what: &str, own_handles: i32) {
    // the caller obtained this memory without copying: nobody else may hold it
    rt::exclusive_acquired(ptr, what);
    let _ = own_handles;
    if !region.is_empty() {
        rt::touch_write(region.as_ptr() as usize);
        for x in region.iter_mut() {
            *x ^= 0xFF;
        }
    }
}

fn run_op(l: &mut Local, op: u8) {
    let who = l.tname;
    match op % 14 {
        12 => {
            // a &self query that other threads may run into with their clones / drops: only its accesses matter here
            // (the answer is racy by nature), the happens-before checker sees every atomic and the blocks it touches
            match l.hs.last() {
                Some(H::B(b, _)) => {
                    let _ = rt::bracket(|| b.is_unique());
                }
                Some(H::M(..)) => {}
                None => {
                    if let Some(p) = l.base_ref {
                        let base: &Bytes = unsafe { &*(p as *const Bytes) };
                        let _ = rt::bracket(|| base.is_unique());
                    }
                }
            }
        }
        13 => {
            // split a BytesMut that is already in shared form once more (BytesMut::shallow_clone: another reference on the same
            // control block), read the part and give it up again
            if let Some(H::M(m, e)) = l.hs.last_mut() {
                if m.len() >= 2 {
                    let p = m.as_ptr() as usize;
                    let part = rt::bracket(|| m.split_to(1));
                    reg(part.as_ptr() as usize);
                    if part.as_ptr() as usize != p || m.as_ptr() as usize != p + 1 {
                        addr_report("split-at-other-address", format!("thread {}: split_to(1) of a BytesMut at {:#x} gave part {:#x} / rest {:#x}", who, p, part.as_ptr() as usize, m.as_ptr() as usize));
                    }
                    check_read(&part[..], &e[..1], who, "through the split-off part");
                    e.remove(0);
                    unreg(part.as_ptr() as usize);
                    rt::bracket(move || drop(part));
                }
            }
        }
        0 => {
            if let Some(p) = l.base_ref {
                let base: &Bytes = unsafe { &*(p as *const Bytes) };
                let bp = base.as_ptr() as usize;
                let c = rt::bracket(|| base.clone());
                if c.as_ptr() as usize != bp {
                    addr_report("clone-at-other-address", format!("thread {}: clone through &Bytes is at {:#x}, source at {:#x}", who, c.as_ptr() as usize, bp));
                }
                reg(c.as_ptr() as usize);
                l.hs.push(H::B(c, l.base_expect.clone()));
            }
        }
        1 => {
            let mut add = None;
            if let Some(H::B(b, e)) = l.hs.last() {
                let bp = b.as_ptr() as usize;
                let c = rt::bracket(|| b.clone());
                if !c.is_empty() && c.as_ptr() as usize != bp {
                    addr_report("clone-at-other-address", format!("thread {}: clone is at {:#x}, source at {:#x}", who, c.as_ptr() as usize, bp));
                }
                reg(c.as_ptr() as usize);
                add = Some(H::B(c, e.clone()));
            }
            if let Some(a) = add {
                l.hs.push(a);
            }
        }
        2 => {
            match l.hs.last() {
                Some(H::B(b, e)) => check_read(&b[..], e, who, "through its Bytes"),
                Some(H::M(b, e)) => check_read(&b[..], e, who, "through its BytesMut"),
                None => {
                    if let Some(p) = l.base_ref {
                        let base: &Bytes = unsafe { &*(p as *const Bytes) };
                        check_read(&base[..], &l.base_expect, who, "through &Bytes");
                    }
                }
            }
        }
        3 => {
            let mut add = None;
            if let Some(H::B(b, e)) = l.hs.last() {
                if b.len() >= 2 {
                    let s = rt::bracket(|| b.slice(1..));
                    if s.as_ptr() as usize != b.as_ptr() as usize + 1 {
                        addr_report("slice-at-other-address", format!("thread {}: slice(1..) is not at source+1", who));
                    }
                    reg(s.as_ptr() as usize);
                    add = Some(H::B(s, e[1..].to_vec()));
                }
            }
            if let Some(a) = add {
                l.hs.push(a);
            }
        }
        4 => {
            if let Some(h) = l.hs.pop() {
                drop_handle(h);
            }
        }
        6 if matches!(l.hs.last(), Some(H::M(..))) => {
            // Into<Vec<u8>> of a BytesMut half: zero-copy when it is alone on the buffer, otherwise a copy that must be complete
            // before this handle's reference is given up
            if let Some(H::M(m, e)) = l.hs.pop() {
                let p = m.as_ptr() as usize;
                let len = m.len();
                rt::exclusive_attempt();
                unreg(p);
                let blk = rt::block_info(p);
                let mut v = rt::bracket(|| Vec::from(m));
                wrong_bytes(who, "Vec::from(BytesMut) returned", &v, &e);
                if let Some((base, size, _)) = blk {
                    let vp = v.as_ptr() as usize;
                    if len > 0 && vp >= base && vp < base + size {
                        exclusive_write(vp, &mut v[..], "Vec::from(BytesMut)", 0);
                    }
                }
                rt::bracket(move || drop(v));
            }
        }
        5 | 6 | 7 => {
            if !matches!(l.hs.last(), Some(H::B(..))) {
                return;
            }
            if let Some(H::B(b, e)) = l.hs.pop() {
                let p = b.as_ptr() as usize;
                let len = b.len();
                rt::exclusive_attempt();
                unreg(p); // in release: the conversion consumes this handle
                match op % 14 {
                    5 => match rt::bracket(|| b.try_into_mut()) {
                        Ok(mut m) => {
                            let mut e = e;
                            if len > 0 && m.as_ptr() as usize == p {
                                exclusive_write(p, &mut m[..], "try_into_mut", 0);
                                e.iter_mut().for_each(|x| *x ^= 0xFF);
                            }
                            reg(m.as_ptr() as usize);
                            l.hs.push(H::M(m, e));
                        }
                        Err(b) => {
                            reg(p);
                            l.hs.push(H::B(b, e));
                        }
                    },
                    6 => {
                        let blk = rt::block_info(p);
                        let mut v = rt::bracket(|| Vec::from(b));
                        wrong_bytes(who, "Vec::from returned", &v, &e); // checked before any write
                        if let Some((base, size, _)) = blk {
                            let vp = v.as_ptr() as usize;
                            if len > 0 && vp >= base && vp < base + size {
                                exclusive_write(vp, &mut v[..], "Vec::from", 0);
                            }
                        }
                        rt::bracket(move || drop(v));
                    }
                    _ => {
                        let mut m = rt::bracket(|| BytesMut::from(b));
                        let mut e = e;
                        wrong_bytes(who, "BytesMut::from holds", &m, &e);
                        if len > 0 && m.as_ptr() as usize == p {
                            exclusive_write(p, &mut m[..], "BytesMut::from", 0);
                            e.iter_mut().for_each(|x| *x ^= 0xFF);
                        }
                        reg(m.as_ptr() as usize);
                        l.hs.push(H::M(m, e));
                    }
                }
            }
        }
        8 | 9 => {
            if let Some(H::M(m, e)) = l.hs.last_mut() {
                let p = m.as_ptr() as usize;
                let blk = rt::block_info(p);
                let cap0 = m.capacity();
                let want = if op % 14 == 8 { N } else { N / 2 + 1 };
                // retry a bounded number of times: the sibling may be released in between
                let mut ok = false;
                for _ in 0..2 {
                    unreg(p);
                    ok = if op % 14 == 8 {
                        rt::bracket(|| m.reserve(want));
                        true
                    } else {
                        rt::bracket(|| m.try_reclaim(want))
                    };
                    reg(m.as_ptr() as usize);
                    if ok {
                        break;
                    }
                }
                if ok {
                    if m.capacity() - m.len() < want {
                        rt::report("C05", "reserve-promise", format!("thread {}: capacity {} len {} after reserving {}", who, m.capacity(), m.len(), want));
                    }
                    let np = m.as_ptr() as usize;
                    if let Some((base, size, _)) = blk {
                        let grew_in_place = np >= base && np < base + size.max(1) && (np != p || m.capacity() > cap0);
                        if grew_in_place {
                            // reclaimed the shared buffer without copying: must be the only party (its own handle is registered)
                            unreg(np);
                            rt::exclusive_acquired(np, "reclaiming reserve");
                            reg(np);
                            if m[..] != e[..] {
                                rt::report("C05", "wrong-bytes-read", format!("thread {}: contents changed by reclaim", who));
                            }
                            rt::touch_write(base);
                            // fill the whole spare capacity: any reader left on this buffer would see it
                            let sp = m.spare_capacity_mut();
                            for x in sp.iter_mut() {
                                x.write(0xEE);
                            }
                        }
                    }
                }
            }
        }
        10 => {
            if let Some(H::B(b, e)) = l.hs.last_mut() {
                if b.len() > 1 {
                    rt::bracket(|| b.truncate(1));
                    e.truncate(1);
                }
            }
        }
        _ => {
            // freeze a BytesMut / no-op otherwise
            if !matches!(l.hs.last(), Some(H::M(..))) {
                return;
            }
            if let Some(H::M(m, e)) = l.hs.pop() {
                let p = m.as_ptr() as usize;
                unreg(p);
                let b = rt::bracket(|| m.freeze());
                reg(b.as_ptr() as usize);
                l.hs.push(H::B(b, e));
            }
        }
    }
}

fn drop_handle(h: H) {
    match h {
        H::B(b, _) => {
            unreg(b.as_ptr() as usize);
            rt::bracket(move || drop(b));
        }
        H::M(m, _) => {
            unreg(m.as_ptr() as usize);
            rt::bracket(move || drop(m));
        }
    }
}

struct SendPtr(usize);
unsafe impl Send for SendPtr {}

pub struct ExecOut {
    pub report: rt::Report,
    pub owner_drops: Option<usize>,
}

pub fn execute(p: &Program, schedule: Vec<u8>, max_preempt: u32, trace: bool) -> ExecOut {
    ODD.store(p.odd, Ordering::SeqCst);
    rt::begin(schedule, max_preempt, 20_000, trace);
    let expect: Vec<u8> = STATIC_DATA.to_vec();
    let owner_drops = Arc::new(AtomicUsize::new(0));
    let mut tail: Option<BytesMut> = None;
    // ---- setup (main thread, tid 0)
    let (base, base_expect): (Bytes, Vec<u8>) = match p.repr % 7 {
        0 => (rt::bracket(|| Bytes::from(expect.clone().into_boxed_slice())), expect.clone()),
        1 => (
            rt::bracket(|| {
                let mut v = Vec::with_capacity(N + 4);
                v.extend_from_slice(&expect);
                Bytes::from(v)
            }),
            expect.clone(),
        ),
        2 => {
            let (h, t) = rt::bracket(|| {
                let mut m = BytesMut::from(&expect[..]);
                let t = m.split_off(N / 2);
                (m.freeze(), t)
            });
            tail = Some(t);
            (h, expect[..N / 2].to_vec())
        }
        3 => {
            let d = owner_drops.clone();
            (rt::bracket(|| Bytes::from_owner(TrackedOwner { buf: expect.clone(), drops: d })), expect.clone())
        }
        5 => (
            rt::bracket(|| {
                let mut b = Bytes::from(expect.clone().into_boxed_slice());
                bytes::Buf::advance(&mut b, 3);
                b
            }),
            expect[3..].to_vec(),
        ),
        6 => (
            rt::bracket(|| {
                let mut m = BytesMut::from(&expect[..]);
                bytes::Buf::advance(&mut m, 5);
                m.freeze()
            }),
            expect[5..].to_vec(),
        ),
        _ => (Bytes::from_static(&STATIC_DATA), expect.clone()),
    };
    let base_ptr = base.as_ptr() as usize;
    reg(base_ptr);
    let mut base_slot: Option<Bytes> = Some(base);
    let mut handles = Vec::new();
    let mut any_ref = false;
    let mut tail_expect = expect[N / 2..].to_vec();
    // the base must stay at a fixed address while threads hold &Bytes to it
    let base_box: Box<Option<Bytes>> = Box::new(None);
    let base_cell: *mut Option<Bytes> = Box::into_raw(base_box);
    for (ti, (hk, ops)) in p.threads.iter().enumerate() {
        let ops = ops.clone();
        let be = base_expect.clone();
        let mut local = Local { hs: Vec::new(), base_ref: None, base_expect: be.clone(), tname: ti + 1 };
        match hk % 5 {
            0 => {
                if let Some(b) = base_slot.as_ref() {
                    let c = rt::bracket(|| b.clone());
                    reg(c.as_ptr() as usize);
                    local.hs.push(H::B(c, be));
                }
            }
            1 => {
                any_ref = true;
            }
            2 | 3 => {
                if let Some(t) = tail.take() {
                    if hk % 5 == 2 {
                        reg(t.as_ptr() as usize);
                        local.hs.push(H::M(t, std::mem::take(&mut tail_expect)));
                    } else {
                        let f = rt::bracket(|| t.freeze());
                        reg(f.as_ptr() as usize);
                        local.hs.push(H::B(f, std::mem::take(&mut tail_expect)));
                    }
                } else if let Some(b) = base_slot.as_ref() {
                    let c = rt::bracket(|| b.clone());
                    reg(c.as_ptr() as usize);
                    local.hs.push(H::B(c, be));
                }
            }
            _ => {
                if !any_ref {
                    if let Some(b) = base_slot.take() {
                        local.hs.push(H::B(b, be)); // already registered
                    }
                }
            }
        }
        let is_ref = hk % 5 == 1;
        let cell = SendPtr(base_cell as usize);
        let local_ptr = SendPtr(Box::into_raw(Box::new(local)) as usize);
        handles.push(rt::spawn(move || {
            let cell = cell;
            let lp = local_ptr;
            let mut local: Box<Local> = unsafe { Box::from_raw(lp.0 as *mut Local) };
            if is_ref {
                let c: &Option<Bytes> = unsafe { &*(cell.0 as *const Option<Bytes>) };
                if let Some(b) = c.as_ref() {
                    local.base_ref = Some(b as *const Bytes as usize);
                }
            }
            for o in ops {
                run_op(&mut local, o);
            }
            // thread end: drop what is left, oldest first
            let hs = std::mem::take(&mut local.hs);
            for h in hs {
                drop_handle(h);
            }
        }));
    }
    if let Some(t) = tail.take() {
        rt::bracket(move || drop(t));
    }
    // park the base where the &Bytes holders expect it (or drop it now if nobody refers to it and a thread took it)
    unsafe { *base_cell = base_slot.take() };
    rt::join_all(handles);
    // ---- main after join
    let mut local = Local { hs: Vec::new(), base_ref: None, base_expect: base_expect.clone(), tname: 0 };
    if let Some(b) = unsafe { (*base_cell).take() } {
        local.hs.push(H::B(b, base_expect.clone()));
    }
    unsafe { drop(Box::from_raw(base_cell)) };
    for o in &p.main_final {
        run_op(&mut local, *o);
    }
    for h in std::mem::take(&mut local.hs) {
        drop_handle(h);
    }
    let report = rt::end();
    unsafe { free_quarantined(&report.quarantined) };
    let od = if p.repr % 7 == 3 { Some(owner_drops.load(Ordering::SeqCst)) } else { None };
    ExecOut { report, owner_drops: od }
}

mod driver;

/// Litmus programs on the shim's atomics themselves: they check the memory-model layer of the engine (which values a load
/// may return, which edges an acquire load gains) against outcomes the C11 model is known to allow / forbid.
/// Returns the list of failed expectations.
pub fn litmus() -> Vec<String> {
    use portable_atomic::{AtomicUsize as A, Ordering as O};
    use std::sync::Mutex;
    let mut failed = Vec::new();
    // explore all decision vectors of a two-thread program; collect the set of outcomes
    fn outcomes(max_stale: u32, t1: fn(&'static A, &'static A) -> usize, t2: fn(&'static A, &'static A) -> usize) -> std::collections::BTreeSet<(usize, usize)> {
        rt::MAX_STALE.store(max_stale, std::sync::atomic::Ordering::Relaxed);
        let mut seen = std::collections::BTreeSet::new();
        let mut prefix: Vec<u8> = Vec::new();
        for _ in 0..20000 {
            let x: &'static A = Box::leak(Box::new(A::new(0)));
            let y: &'static A = Box::leak(Box::new(A::new(0)));
            let res: &'static Mutex<(usize, usize)> = Box::leak(Box::new(Mutex::new((99, 99))));
            rt::begin(prefix.clone(), u32::MAX, 10_000, false);
            let h1 = rt::spawn(move || {
                let r = t1(x, y);
                res.lock().unwrap().0 = r;
            });
            let h2 = rt::spawn(move || {
                let r = t2(x, y);
                res.lock().unwrap().1 = r;
            });
            rt::join_all(vec![h1, h2]);
            let rep = rt::end();
            seen.insert(*res.lock().unwrap());
            let d = &rep.decisions;
            let mut i = d.len();
            let mut next = None;
            while i > 0 {
                i -= 1;
                if d[i].1 + 1 < d[i].0 {
                    let mut np: Vec<u8> = d[..i].iter().map(|x| x.1).collect();
                    np.push(d[i].1 + 1);
                    next = Some(np);
                    break;
                }
            }
            match next {
                Some(np) => prefix = np,
                None => break,
            }
        }
        seen
    }
    // --- message passing, everything relaxed: (flag seen, data stale) is allowed
    let mp_relaxed = outcomes(
        2,
        |x, y| {
            x.store(1, O::Relaxed);
            y.store(1, O::Relaxed);
            0
        },
        |x, y| {
            let f = y.load(O::Relaxed);
            let d = x.load(O::Relaxed);
            f * 10 + d
        },
    );
    if !mp_relaxed.contains(&(0, 10)) {
        failed.push(format!("MP relaxed: outcome flag=1,data=0 not produced (got {:?})", mp_relaxed));
    }
    // --- message passing with release / acquire: flag=1,data=0 is forbidden
    let mp_ra = outcomes(
        2,
        |x, y| {
            x.store(1, O::Relaxed);
            y.store(1, O::Release);
            0
        },
        |x, y| {
            let f = y.load(O::Acquire);
            let d = x.load(O::Relaxed);
            f * 10 + d
        },
    );
    if mp_ra.contains(&(0, 10)) {
        failed.push("MP release/acquire: forbidden outcome flag=1,data=0 was produced".to_string());
    }
    if !mp_ra.contains(&(0, 11)) || !mp_ra.contains(&(0, 0)) {
        failed.push(format!("MP release/acquire: expected outcomes missing (got {:?})", mp_ra));
    }
    // --- read-read coherence: after reading the new value a thread never reads the old one again
    let corr = outcomes(
        2,
        |x, _| {
            x.store(1, O::Relaxed);
            x.store(2, O::Relaxed);
            0
        },
        |x, _| {
            let a = x.load(O::Relaxed);
            let b = x.load(O::Relaxed);
            a * 10 + b
        },
    );
    for (_, r) in &corr {
        let (a, b) = (r / 10, r % 10);
        if b < a {
            failed.push(format!("CoRR: read {} then the older {}", a, b));
        }
    }
    if !corr.contains(&(0, 12)) || !corr.contains(&(0, 2)) && !corr.contains(&(0, 1)) {
        failed.push(format!("CoRR: expected outcomes missing (got {:?})", corr));
    }
    // --- a read-modify-write always reads the newest value: two increments never lose one
    let rmw = outcomes(
        2,
        |x, _| x.fetch_add(1, O::Relaxed),
        |x, _| x.fetch_add(1, O::Relaxed),
    );
    for (a, b) in &rmw {
        if a + b != 1 {
            failed.push(format!("RMW atomicity: both increments read {} / {}", a, b));
        }
    }
    // --- release sequence through a relaxed RMW: acquire load of the RMW's value still sees the data
    let relseq = outcomes(
        2,
        |x, y| {
            x.store(1, O::Relaxed);
            y.store(1, O::Release);
            y.fetch_add(1, O::Relaxed);
            0
        },
        |x, y| {
            let f = y.load(O::Acquire);
            let d = x.load(O::Relaxed);
            f * 10 + d
        },
    );
    if relseq.contains(&(0, 20)) || relseq.contains(&(0, 10)) {
        failed.push(format!("release sequence: data=0 read after acquiring flag>=1 (got {:?})", relseq));
    }
    // --- with max_stale = 0 only sequentially consistent values appear
    let sc = outcomes(
        0,
        |x, y| {
            x.store(1, O::Relaxed);
            y.store(1, O::Relaxed);
            0
        },
        |x, y| {
            let f = y.load(O::Relaxed);
            let d = x.load(O::Relaxed);
            f * 10 + d
        },
    );
    if sc.contains(&(0, 10)) {
        failed.push("max_stale=0: a non-SC outcome was produced".to_string());
    }
    failed
}

fn main() {
    std::process::exit(driver::main());
}
