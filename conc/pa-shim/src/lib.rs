//! Verification shim with the name and the API subset of `portable-atomic` that `bytes` uses when
//! its `extra-platforms` feature is on. Every atomic operation of the crate, with the `Ordering`
//! the crate passed, goes through `rt`: it is a scheduling point of the controlled scheduler and an
//! event for the vector-clock (happens-before) checker. Outside a controlled execution the shim is
//! a plain wrapper of the core atomics.

pub use core::sync::atomic::Ordering;
use core::sync::atomic::{AtomicPtr as CorePtr, AtomicU32, AtomicUsize as CoreUsize};

pub mod rt;

#[derive(Clone, Copy, Debug, PartialEq, Eq)]
pub enum OpKind {
    Load,
    Store,
    Rmw,
    CasOk,
    CasFail,
    GetMut,
}

pub struct AtomicUsize {
    v: CoreUsize,
    id: AtomicU32,
}

impl AtomicUsize {
    pub const fn new(v: usize) -> Self {
        AtomicUsize { v: CoreUsize::new(v), id: AtomicU32::new(0) }
    }
    #[inline]
    fn addr(&self) -> usize {
        self as *const _ as usize
    }
    pub fn load(&self, o: Ordering) -> usize {
        rt::before(&self.id, self.addr());
        let r = self.v.load(Ordering::SeqCst);
        rt::after(&self.id, self.addr(), OpKind::Load, o, o, r, r)
    }
    pub fn store(&self, val: usize, o: Ordering) {
        rt::before(&self.id, self.addr());
        let old = self.v.swap(val, Ordering::SeqCst);
        let _ = rt::after(&self.id, self.addr(), OpKind::Store, o, o, old, val);
    }
    pub fn fetch_add(&self, val: usize, o: Ordering) -> usize {
        rt::before(&self.id, self.addr());
        let r = self.v.fetch_add(val, Ordering::SeqCst);
        let _ = rt::after(&self.id, self.addr(), OpKind::Rmw, o, o, r, r.wrapping_add(val));
        r
    }
    pub fn fetch_sub(&self, val: usize, o: Ordering) -> usize {
        rt::before(&self.id, self.addr());
        let r = self.v.fetch_sub(val, Ordering::SeqCst);
        let _ = rt::after(&self.id, self.addr(), OpKind::Rmw, o, o, r, r.wrapping_sub(val));
        r
    }
    pub fn compare_exchange(&self, cur: usize, new: usize, s: Ordering, f: Ordering) -> Result<usize, usize> {
        rt::before(&self.id, self.addr());
        let r = self.v.compare_exchange(cur, new, Ordering::SeqCst, Ordering::SeqCst);
        match r {
            Ok(old) => drop(rt::after(&self.id, self.addr(), OpKind::CasOk, s, f, old, new)),
            Err(old) => drop(rt::after(&self.id, self.addr(), OpKind::CasFail, s, f, old, old)),
        }
        r
    }
    pub fn get_mut(&mut self) -> &mut usize {
        let _ = rt::after(&self.id, self as *const _ as usize, OpKind::GetMut, Ordering::Relaxed, Ordering::Relaxed, 0, 0);
        self.v.get_mut()
    }
    pub fn into_inner(self) -> usize {
        self.v.into_inner()
    }
}

pub struct AtomicPtr<T> {
    v: CorePtr<T>,
    id: AtomicU32,
}

impl<T> AtomicPtr<T> {
    pub const fn new(p: *mut T) -> Self {
        AtomicPtr { v: CorePtr::new(p), id: AtomicU32::new(0) }
    }
    #[inline]
    fn addr(&self) -> usize {
        self as *const _ as usize
    }
    pub fn load(&self, o: Ordering) -> *mut T {
        rt::before(&self.id, self.addr());
        let r = self.v.load(Ordering::SeqCst);
        rt::after(&self.id, self.addr(), OpKind::Load, o, o, r as usize, r as usize) as *mut T
    }
    pub fn store(&self, p: *mut T, o: Ordering) {
        rt::before(&self.id, self.addr());
        let old = self.v.swap(p, Ordering::SeqCst);
        let _ = rt::after(&self.id, self.addr(), OpKind::Store, o, o, old as usize, p as usize);
    }
    pub fn compare_exchange(&self, cur: *mut T, new: *mut T, s: Ordering, f: Ordering) -> Result<*mut T, *mut T> {
        rt::before(&self.id, self.addr());
        let r = self.v.compare_exchange(cur, new, Ordering::SeqCst, Ordering::SeqCst);
        match r {
            Ok(old) => drop(rt::after(&self.id, self.addr(), OpKind::CasOk, s, f, old as usize, new as usize)),
            Err(old) => drop(rt::after(&self.id, self.addr(), OpKind::CasFail, s, f, old as usize, old as usize)),
        }
        r
    }
    pub fn get_mut(&mut self) -> &mut *mut T {
        let _ = rt::after(&self.id, self as *const _ as usize, OpKind::GetMut, Ordering::Relaxed, Ordering::Relaxed, 0, 0);
        self.v.get_mut()
    }
    pub fn into_inner(self) -> *mut T {
        self.v.into_inner()
    }
}

impl<T> core::fmt::Debug for AtomicPtr<T> {
    fn fmt(&self, f: &mut core::fmt::Formatter<'_>) -> core::fmt::Result {
        write!(f, "AtomicPtr(shim)")
    }
}
impl core::fmt::Debug for AtomicUsize {
    fn fmt(&self, f: &mut core::fmt::Formatter<'_>) -> core::fmt::Result {
        write!(f, "AtomicUsize(shim)")
    }
}
