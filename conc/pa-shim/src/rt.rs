//! Runtime of the controlled-schedule engine: baton scheduler (exactly one model thread runs; every
//! atomic operation of the crate under test is a scheduling point), vector clocks computed from
//! the orderings the crate requested, ghost locations for every block allocated during the
//! execution, and a registry of live handles per block.

use crate::OpKind;
use core::sync::atomic::{AtomicBool, AtomicU32, Ordering};
use std::cell::Cell;
use std::sync::{Condvar, Mutex, MutexGuard};

pub const MAXT: usize = 5;
pub type VC = [u32; MAXT];

thread_local! {
    static TID: Cell<usize> = const { Cell::new(usize::MAX) };
    static IN_RT: Cell<bool> = const { Cell::new(false) };
    static BRACKET: Cell<bool> = const { Cell::new(false) };
}
static ACTIVE: AtomicBool = AtomicBool::new(false);
static EXEC: Mutex<Option<Exec>> = Mutex::new(None);
static CV: Condvar = Condvar::new();

#[derive(Clone, Debug)]
pub struct Block {
    pub base: usize,
    pub size: usize,
    pub align: usize,
    pub alive: bool,
    pub alloc_thread: usize,
    pub write: (usize, u32),
    pub reads: VC,
    pub handles: i32,
    pub freed_by: usize,
    pub serial: u32,
}

#[derive(Clone, Debug, Default)]
pub struct Stats {
    pub atomic_ops: u64,
    pub cas_failed: u32,
    pub last_ref_by_other_thread: u32,
    pub needed_edges: u32,
    pub exclusive_acquired: u32,
    pub exclusive_attempts: u32,
    pub frees: u32,
    pub cross_thread_frees: u32,
    pub reads: u32,
    pub writes: u32,
    pub stale_loads: u32,
    pub loads_with_a_choice: u32,
}

#[derive(Clone, Debug)]
pub struct Violation {
    pub prop: &'static str,
    pub kind: &'static str,
    pub detail: String,
}

/// one store in the modification order of an atomic location
#[derive(Clone, Debug)]
struct StoreRec {
    val: usize,
    wt: usize,
    epoch: u32,
    /// what an acquire load that reads THIS store synchronises with (release store, or release sequence continued by RMWs)
    rel: Option<VC>,
}
struct Loc {
    rel: Option<VC>,
    last_write: (usize, u32),
    /// modification order (values the location has held during this execution, oldest first)
    hist: Vec<StoreRec>,
    /// per thread: index of the newest store it has read or written (coherence: it can never read an older one again)
    seen: [usize; MAXT],
}
impl Loc {
    fn new(init: usize) -> Loc {
        Loc { rel: None, last_write: (0, 0), hist: vec![StoreRec { val: init, wt: 0, epoch: 0, rel: None }], seen: [0; MAXT] }
    }
}

/// how many loads per execution may return a value that is not the newest in modification order (0 = sequentially
/// consistent values only)
pub static MAX_STALE: AtomicU32 = AtomicU32::new(1);

pub struct Exec {
    nthreads: usize,
    current: usize,
    enabled: [bool; MAXT],
    done: [bool; MAXT],
    schedule: Vec<u8>,
    pos: usize,
    pub decisions: Vec<(u8, u8)>,
    preemptions: u32,
    max_preempt: u32,
    steps: u64,
    budget: u64,
    aborted: bool,
    clocks: [VC; MAXT],
    locs: Vec<Loc>,
    stale_used: u32,
    blocks: Vec<Block>,
    pub violations: Vec<Violation>,
    pub stats: Stats,
    trace: Option<Vec<String>>,
    serial: u32,
}

pub struct Report {
    pub violations: Vec<Violation>,
    pub decisions: Vec<(u8, u8)>,
    pub steps: u64,
    pub aborted: bool,
    pub stats: Stats,
    pub leaked: Vec<Block>,
    pub quarantined: Vec<(usize, usize, usize)>,
    pub trace: Vec<String>,
}

struct RtGuard;
impl RtGuard {
    fn enter() -> Option<RtGuard> {
        let already = IN_RT.try_with(|c| c.replace(true)).unwrap_or(true);
        if already {
            None
        } else {
            Some(RtGuard)
        }
    }
}
impl Drop for RtGuard {
    fn drop(&mut self) {
        let _ = IN_RT.try_with(|c| c.set(false));
    }
}

fn lock() -> MutexGuard<'static, Option<Exec>> {
    match EXEC.lock() {
        Ok(g) => g,
        Err(p) => p.into_inner(),
    }
}

#[inline]
fn tid() -> usize {
    TID.try_with(|c| c.get()).unwrap_or(usize::MAX)
}
#[inline]
pub fn in_model_thread() -> bool {
    ACTIVE.load(Ordering::Relaxed) && tid() != usize::MAX
}
/// allocations are attributed to the execution only inside brackets (calls into the crate / payloads)
pub fn bracket<R>(f: impl FnOnce() -> R) -> R {
    let prev = BRACKET.try_with(|c| c.replace(true)).unwrap_or(false);
    struct Reset(bool);
    impl Drop for Reset {
        fn drop(&mut self) {
            let _ = BRACKET.try_with(|c| c.set(self.0));
        }
    }
    let _r = Reset(prev);
    f()
}
pub fn tracking() -> bool {
    in_model_thread() && BRACKET.try_with(|c| c.get()).unwrap_or(false) && !IN_RT.try_with(|c| c.get()).unwrap_or(true)
}

fn join(a: &mut VC, b: &VC) {
    for i in 0..MAXT {
        if b[i] > a[i] {
            a[i] = b[i];
        }
    }
}
fn acq(o: Ordering) -> bool {
    matches!(o, Ordering::Acquire | Ordering::AcqRel | Ordering::SeqCst)
}
fn rel(o: Ordering) -> bool {
    matches!(o, Ordering::Release | Ordering::AcqRel | Ordering::SeqCst)
}

impl Exec {
    fn viol(&mut self, prop: &'static str, kind: &'static str, detail: String) {
        if self.violations.len() < 12 && !self.violations.iter().any(|v| v.kind == kind && v.prop == prop) {
            self.violations.push(Violation { prop, kind, detail });
        }
    }
    fn block_of(&self, addr: usize) -> Option<usize> {
        let mut i = self.blocks.len();
        while i > 0 {
            i -= 1;
            let b = &self.blocks[i];
            if addr >= b.base && addr < b.base + b.size.max(1) {
                return Some(i);
            }
        }
        None
    }
    /// decide who runs next. `cur`: the thread giving up control if it may continue
    fn pick(&mut self, cur: Option<usize>) -> Option<usize> {
        let mut opts: [usize; MAXT] = [0; MAXT];
        let mut n = 0;
        if let Some(c) = cur {
            opts[n] = c;
            n += 1;
        }
        for t in 1..self.nthreads {
            if self.enabled[t] && Some(t) != cur {
                opts[n] = t;
                n += 1;
            }
        }
        if n == 0 {
            return None;
        }
        if n == 1 || (cur.is_some() && self.preemptions >= self.max_preempt) {
            return Some(opts[0]);
        }
        let c = (self.schedule.get(self.pos).copied().unwrap_or(0) as usize) % n;
        self.pos += 1;
        self.decisions.push((n as u8, c as u8));
        if cur.is_some() && c != 0 {
            self.preemptions += 1;
        }
        Some(opts[c])
    }
    fn read_access(&mut self, bi: usize, t: usize, what: &'static str) {
        let c = self.clocks[t];
        let b = &mut self.blocks[bi];
        if !b.alive {
            let d = format!("thread {} {} block #{} ({} bytes) after thread {} freed it", t, what, b.serial, b.size, b.freed_by);
            self.viol("C05", "access-after-free", d.clone());
            self.viol("C06", "access-after-free", d);
            return;
        }
        let (wt, we) = b.write;
        if wt != t && we > c[wt] {
            let d = format!("thread {} {} block #{} without happens-before from its last write/allocation by thread {}", t, what, b.serial, wt);
            self.viol("C06", "read-races-with-write", d);
        }
        self.blocks[bi].reads[t] = c[t];
    }
    fn write_access(&mut self, bi: usize, t: usize, what: &'static str) -> bool {
        let c = self.clocks[t];
        let b = self.blocks[bi].clone();
        let mut needed = false;
        let mut ok = true;
        for u in 0..MAXT {
            if u != t && b.reads[u] > 0 {
                needed = true;
                if b.reads[u] > c[u] {
                    ok = false;
                    let d = format!("thread {} {} block #{} ({} bytes, align {}) but the last access by thread {} does not happen-before it", t, what, b.serial, b.size, b.align, u);
                    if what == "frees" {
                        // "freed ... after the last handle is gone", in the sense the quantifier of C05 gives to "after" (every
                        // outcome the C11 model allows): a free that is not ordered after another thread's last use is not after it
                        self.viol("C05", "freed-without-being-ordered-after-the-last-use", d.clone());
                    }
                    self.viol("C06", if what == "frees" { "free-races-with-use" } else { "exclusive-write-races-with-use" }, d);
                }
            }
        }
        let (wt, we) = b.write;
        if wt != t && we > c[wt] {
            ok = false;
            let d = format!("thread {} {} block #{} without happens-before from the last write by thread {}", t, what, b.serial, wt);
            self.viol("C06", "write-races-with-write", d);
        }
        if needed && ok {
            self.stats.needed_edges += 1;
        }
        self.blocks[bi].write = (t, c[t]);
        ok
    }
}

// ------------------------------------------------------------------------------------------------
// hooks called by the shim atomics

pub fn before(_id: &AtomicU32, _addr: usize) {
    if !in_model_thread() {
        return;
    }
    let Some(_g) = RtGuard::enter() else { return };
    yield_point();
}

fn yield_point() {
    let t = tid();
    let mut g = lock();
    let Some(ex) = g.as_mut() else { return };
    if ex.aborted || t == 0 {
        return;
    }
    ex.steps += 1;
    if ex.steps > ex.budget {
        ex.aborted = true;
        CV.notify_all();
        return;
    }
    let next = ex.pick(Some(t)).unwrap_or(t);
    if next != t {
        ex.current = next;
        CV.notify_all();
        loop {
            let ex = g.as_mut().unwrap();
            if ex.current == t || ex.aborted {
                break;
            }
            g = match CV.wait(g) {
                Ok(x) => x,
                Err(p) => p.into_inner(),
            };
        }
    }
}

/// records the operation; returns the value the operation observes (`old`, except that a plain load may be given an older
/// value of the location that the C11 model still allows it to read)
pub fn after(id: &AtomicU32, addr: usize, kind: OpKind, so: Ordering, fo: Ordering, old: usize, new: usize) -> usize {
    if !in_model_thread() {
        return old;
    }
    let Some(_g) = RtGuard::enter() else { return old };
    let t = tid();
    let mut g = lock();
    let Some(ex) = g.as_mut() else { return old };
    let mut observed = old;
    ex.stats.atomic_ops += 1;
    let mut lid = id.load(Ordering::Relaxed) as usize;
    if lid == 0 || lid > ex.locs.len() || kind == OpKind::GetMut && false {
        // first tracked access in this execution (or an id left over from an earlier one): the value it had before
        // this operation is the initial store, which happens-before everything tracked
        ex.locs.push(Loc::new(old));
        lid = ex.locs.len();
        id.store(lid as u32, Ordering::Relaxed);
    }
    let li = lid - 1;
    if kind != OpKind::GetMut && ex.locs[li].hist.last().map_or(true, |r| r.val != old) {
        // the location was changed outside the tracked threads (or the id belongs to a recycled address): resynchronise
        let mut l = Loc::new(old);
        l.last_write = ex.locs[li].last_write;
        ex.locs[li] = l;
    }
    if let Some(tr) = ex.trace.as_mut() {
        tr.push(format!("T{} {:?} loc{} {:?}/{:?} {:#x}->{:#x}", t, kind, lid, so, fo, old, new));
    }
    // the atomic lives in some block: an access to that block by this thread
    if let Some(bi) = ex.block_of(addr) {
        ex.read_access(bi, t, "accesses an atomic in");
        if kind == OpKind::Rmw && old == 1 && new == 0 && ex.blocks[bi].alloc_thread != t {
            ex.stats.last_ref_by_other_thread += 1;
        }
    }
    match kind {
        OpKind::Load => {
            // which stores may this load read? Not one older than a store that happens-before the load, and not one older
            // than what this thread has already observed (coherence); anything newer is allowed by the C11 model.
            let last = ex.locs[li].hist.len() - 1;
            let mut lo = ex.locs[li].seen[t];
            for j in (lo..=last).rev() {
                let r = &ex.locs[li].hist[j];
                if r.epoch <= ex.clocks[t][r.wt] {
                    lo = lo.max(j);
                    break;
                }
            }
            let mut pick = last;
            if lo < last {
                ex.stats.loads_with_a_choice += 1;
                if ex.stale_used < MAX_STALE.load(Ordering::Relaxed) {
                    let n = last - lo + 1;
                    let c = (ex.schedule.get(ex.pos).copied().unwrap_or(0) as usize) % n;
                    ex.pos += 1;
                    ex.decisions.push((n.min(255) as u8, c as u8));
                    if c != 0 {
                        pick = last - c;
                        ex.stale_used += 1;
                        ex.stats.stale_loads += 1;
                        if let Some(tr) = ex.trace.as_mut() {
                            tr.push(format!("   T{} load of loc{} reads the older value {:#x} ({} stores back; newest is {:#x})", t, lid, ex.locs[li].hist[pick].val, c, old));
                        }
                    }
                }
            }
            ex.locs[li].seen[t] = pick;
            observed = ex.locs[li].hist[pick].val;
            if acq(so) {
                if let Some(r) = ex.locs[li].hist[pick].rel {
                    join(&mut ex.clocks[t], &r);
                }
            }
        }
        OpKind::Store => {
            ex.locs[li].rel = if rel(so) { Some(ex.clocks[t]) } else { None };
            ex.locs[li].last_write = (t, ex.clocks[t][t]);
            let r = StoreRec { val: new, wt: t, epoch: ex.clocks[t][t], rel: ex.locs[li].rel };
            ex.locs[li].hist.push(r);
            ex.locs[li].seen[t] = ex.locs[li].hist.len() - 1;
        }
        OpKind::Rmw | OpKind::CasOk => {
            // a read-modify-write always reads the newest store
            if acq(so) {
                if let Some(r) = ex.locs[li].rel {
                    join(&mut ex.clocks[t], &r);
                }
            }
            if rel(so) {
                let c = ex.clocks[t];
                match ex.locs[li].rel.as_mut() {
                    Some(r) => join(r, &c),
                    None => ex.locs[li].rel = Some(c),
                }
            }
            ex.locs[li].last_write = (t, ex.clocks[t][t]);
            let r = StoreRec { val: new, wt: t, epoch: ex.clocks[t][t], rel: ex.locs[li].rel };
            ex.locs[li].hist.push(r);
            ex.locs[li].seen[t] = ex.locs[li].hist.len() - 1;
        }
        OpKind::CasFail => {
            ex.stats.cas_failed += 1;
            if acq(fo) {
                if let Some(r) = ex.locs[li].rel {
                    join(&mut ex.clocks[t], &r);
                }
            }
            ex.locs[li].seen[t] = ex.locs[li].hist.len() - 1;
        }
        OpKind::GetMut => {
            let (wt, we) = ex.locs[li].last_write;
            if wt != t && we > ex.clocks[t][wt] {
                let d = format!("thread {} takes get_mut() of an atomic whose last atomic write by thread {} does not happen-before it", t, wt);
                ex.viol("C06", "get_mut-races-with-atomic-write", d);
            }
        }
    }
    ex.clocks[t][t] += 1;
    drop(g);
    // a state-changing operation (RMW, successful CAS, store) may be followed by plain code of this
    // thread that matters (a copy out of the buffer after giving up a reference, ...): let the others
    // run in between as well, not only before the next atomic operation
    if matches!(kind, OpKind::Rmw | OpKind::CasOk | OpKind::Store) && POST_YIELD.load(Ordering::Relaxed) {
        yield_point();
    }
    observed
}

pub static POST_YIELD: AtomicBool = AtomicBool::new(true);

// ------------------------------------------------------------------------------------------------
// allocator hooks

pub fn on_alloc(ptr: usize, size: usize, align: usize) {
    let Some(_g) = RtGuard::enter() else { return };
    let t = tid();
    let mut g = lock();
    let Some(ex) = g.as_mut() else { return };
    ex.serial += 1;
    let c = ex.clocks[t][t];
    let s = ex.serial;
    ex.blocks.push(Block { base: ptr, size, align, alive: true, alloc_thread: t, write: (t, c), reads: [0; MAXT], handles: 0, freed_by: usize::MAX, serial: s });
    ex.clocks[t][t] += 1;
}

/// returns true if the block belongs to the execution: the caller must then NOT free it (it is
/// quarantined and released by `end`)
pub fn on_dealloc(ptr: usize) -> bool {
    if !ACTIVE.load(Ordering::Relaxed) {
        return false;
    }
    let Some(_g) = RtGuard::enter() else { return false };
    let t = tid();
    let mut g = lock();
    let Some(ex) = g.as_mut() else { return false };
    let mut found = None;
    for (i, b) in ex.blocks.iter().enumerate().rev() {
        if b.base == ptr {
            found = Some(i);
            break;
        }
    }
    let Some(bi) = found else { return false };
    if !ex.blocks[bi].alive {
        let d = format!("block #{} ({} bytes) freed twice: by thread {} and again by thread {}", ex.blocks[bi].serial, ex.blocks[bi].size, ex.blocks[bi].freed_by, t);
        ex.viol("C05", "double-free", d);
        return true;
    }
    let t = if t == usize::MAX { 0 } else { t };
    if ex.blocks[bi].handles > 0 {
        let d = format!("block #{} ({} bytes) freed by thread {} while {} handle(s) on it are still live", ex.blocks[bi].serial, ex.blocks[bi].size, t, ex.blocks[bi].handles);
        ex.viol("C05", "freed-while-handle-live", d);
    }
    ex.stats.frees += 1;
    if ex.blocks[bi].alloc_thread != t {
        ex.stats.cross_thread_frees += 1;
    }
    ex.write_access(bi, t, "frees");
    ex.blocks[bi].alive = false;
    ex.blocks[bi].freed_by = t;
    ex.clocks[t][t] += 1;
    // poison so that a read after free shows up as wrong contents
    unsafe { std::ptr::write_bytes(ptr as *mut u8, 0xDD, ex.blocks[bi].size) };
    true
}

// ------------------------------------------------------------------------------------------------
// harness-side events

pub fn touch_read(addr: usize) {
    let Some(_g) = RtGuard::enter() else { return };
    let t = tid();
    let mut g = lock();
    let Some(ex) = g.as_mut() else { return };
    if let Some(bi) = ex.block_of(addr) {
        ex.stats.reads += 1;
        ex.read_access(bi, t, "reads");
        ex.clocks[t][t] += 1;
    }
}
pub fn touch_write(addr: usize) {
    let Some(_g) = RtGuard::enter() else { return };
    let t = tid();
    let mut g = lock();
    let Some(ex) = g.as_mut() else { return };
    if let Some(bi) = ex.block_of(addr) {
        ex.stats.writes += 1;
        if !ex.blocks[bi].alive {
            ex.read_access(bi, t, "writes");
        } else {
            ex.write_access(bi, t, "writes through an exclusively obtained handle into");
        }
        ex.clocks[t][t] += 1;
    }
}
pub fn handle_add(addr: usize) {
    let Some(_g) = RtGuard::enter() else { return };
    let mut g = lock();
    let Some(ex) = g.as_mut() else { return };
    if let Some(bi) = ex.block_of(addr) {
        ex.blocks[bi].handles += 1;
    }
}
pub fn handle_sub(addr: usize) {
    let Some(_g) = RtGuard::enter() else { return };
    let mut g = lock();
    let Some(ex) = g.as_mut() else { return };
    if let Some(bi) = ex.block_of(addr) {
        ex.blocks[bi].handles -= 1;
    }
}
/// a conversion returned memory inside the original block: the caller must be the only party
pub fn exclusive_acquired(addr: usize, what: &str) {
    let Some(_g) = RtGuard::enter() else { return };
    let t = tid();
    let mut g = lock();
    let Some(ex) = g.as_mut() else { return };
    if let Some(bi) = ex.block_of(addr) {
        ex.stats.exclusive_acquired += 1;
        if ex.blocks[bi].handles > 0 {
            let d = format!("thread {} obtained the storage of block #{} without copying through {} while {} other handle(s) are live", t, ex.blocks[bi].serial, what, ex.blocks[bi].handles);
            ex.viol("C05", "two-exclusive-parties", d);
        }
    }
}
pub fn exclusive_attempt() {
    let Some(_g) = RtGuard::enter() else { return };
    let mut g = lock();
    if let Some(ex) = g.as_mut() {
        ex.stats.exclusive_attempts += 1;
    }
}
pub fn report(prop: &'static str, kind: &'static str, detail: String) {
    let Some(_g) = RtGuard::enter() else { return };
    let mut g = lock();
    if let Some(ex) = g.as_mut() {
        ex.viol(prop, kind, detail);
    }
}
pub fn block_info(addr: usize) -> Option<(usize, usize, bool)> {
    let _g = RtGuard::enter()?;
    let g = lock();
    let ex = g.as_ref()?;
    let bi = ex.block_of(addr)?;
    Some((ex.blocks[bi].base, ex.blocks[bi].size, ex.blocks[bi].alive))
}

// ------------------------------------------------------------------------------------------------
// execution control (called from the main thread of the harness)

pub fn begin(schedule: Vec<u8>, max_preempt: u32, budget: u64, trace: bool) {
    let _g = RtGuard::enter();
    let mut g = lock();
    let mut clocks = [[0u32; MAXT]; MAXT];
    clocks[0][0] = 1;
    *g = Some(Exec {
        nthreads: 1,
        current: 0,
        enabled: [false; MAXT],
        done: [false; MAXT],
        schedule,
        pos: 0,
        decisions: Vec::with_capacity(64),
        preemptions: 0,
        max_preempt,
        steps: 0,
        budget,
        aborted: false,
        clocks,
        locs: Vec::with_capacity(32),
        stale_used: 0,
        blocks: Vec::with_capacity(32),
        violations: Vec::new(),
        stats: Stats::default(),
        trace: if trace { Some(Vec::new()) } else { None },
        serial: 0,
    });
    drop(g);
    let _ = TID.try_with(|c| c.set(0));
    ACTIVE.store(true, Ordering::SeqCst);
}

pub fn spawn<F: FnOnce() + Send + 'static>(f: F) -> std::thread::JoinHandle<()> {
    let id = {
        let _g = RtGuard::enter();
        let mut g = lock();
        let ex = g.as_mut().expect("spawn outside an execution");
        let id = ex.nthreads;
        assert!(id < MAXT);
        ex.nthreads += 1;
        ex.enabled[id] = true;
        ex.clocks[id] = ex.clocks[0];
        ex.clocks[id][id] = 1;
        ex.clocks[0][0] += 1;
        id
    };
    std::thread::spawn(move || {
        let _ = TID.try_with(|c| c.set(id));
        // wait for the baton
        {
            let _g = RtGuard::enter();
            let mut g = lock();
            loop {
                let ex = g.as_mut().unwrap();
                if ex.current == id || ex.aborted {
                    break;
                }
                g = match CV.wait(g) {
                    Ok(x) => x,
                    Err(p) => p.into_inner(),
                };
            }
        }
        let r = std::panic::catch_unwind(std::panic::AssertUnwindSafe(f));
        // finished: hand the baton on
        let _g = RtGuard::enter();
        let mut g = lock();
        let ex = g.as_mut().unwrap();
        ex.done[id] = true;
        ex.enabled[id] = false;
        if r.is_err() && !ex.aborted {
            ex.viol("C05", "thread-panicked", format!("model thread {} panicked", id));
        }
        let next = ex.pick(None).unwrap_or(0);
        ex.current = next;
        CV.notify_all();
        drop(g);
        let _ = TID.try_with(|c| c.set(usize::MAX));
    })
}

pub fn join_all(handles: Vec<std::thread::JoinHandle<()>>) {
    {
        let _g = RtGuard::enter();
        let mut g = lock();
        let ex = g.as_mut().unwrap();
        let first = ex.pick(None).unwrap_or(0);
        ex.current = first;
        CV.notify_all();
        loop {
            let ex = g.as_mut().unwrap();
            if ex.current == 0 || ex.aborted {
                break;
            }
            g = match CV.wait(g) {
                Ok(x) => x,
                Err(p) => p.into_inner(),
            };
        }
    }
    for h in handles {
        let _ = h.join();
    }
    let _g = RtGuard::enter();
    let mut g = lock();
    let ex = g.as_mut().unwrap();
    for t in 1..ex.nthreads {
        let c = ex.clocks[t];
        join(&mut ex.clocks[0], &c);
    }
    ex.clocks[0][0] += 1;
    ex.current = 0;
}

pub fn end() -> Report {
    ACTIVE.store(false, Ordering::SeqCst);
    let _g = RtGuard::enter();
    let mut g = lock();
    let ex = g.take().expect("end without begin");
    let mut leaked = Vec::new();
    let mut quarantined = Vec::new();
    for b in &ex.blocks {
        if b.alive {
            leaked.push(b.clone());
        } else {
            quarantined.push((b.base, b.size, b.align));
        }
    }
    Report { violations: ex.violations, decisions: ex.decisions, steps: ex.steps, aborted: ex.aborted, stats: ex.stats, leaked, quarantined, trace: ex.trace.unwrap_or_default() }
}
