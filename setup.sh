#!/bin/sh
# Builds the harness binaries from files on disk only (offline). Checks rebuild incrementally from /repo's working tree.
set -e
cd "$(dirname "$0")"
export CARGO_NET_OFFLINE=true
for p in rel dbg; do
  cargo build --profile $p --manifest-path engine/Cargo.toml --target-dir engine/target >/dev/null 2>&1 || { echo "engine/$p build failed"; cargo build --profile $p --manifest-path engine/Cargo.toml --target-dir engine/target 2>&1 | tail -20; exit 1; }
done
for p in rel dbg; do
  cargo build --profile $p --manifest-path engine/Cargo.toml --no-default-features --target-dir engine/target-nostd >/dev/null 2>&1 || { echo "engine nostd/$p build failed"; exit 1; }
  cargo build --profile $p --manifest-path engine/Cargo.toml --no-default-features --features bstd,bextra --target-dir engine/target-extra >/dev/null 2>&1 || { echo "engine extra/$p build failed"; exit 1; }
done
echo setup ok
cargo build --profile rel --manifest-path conc/Cargo.toml --target-dir conc/target >/dev/null 2>&1 || { echo "conc build failed"; exit 1; }
( cd sanit && RUSTFLAGS="-Zsanitizer=thread" cargo +nightly build -Zbuild-std --target x86_64-unknown-linux-gnu --release --target-dir target-tsan >/dev/null 2>&1 ) || echo "note: TSan build of sanit failed (C06 reports it as a note, not a verdict)"
echo setup complete
