//! Engine S': the C05/C06 program language on REAL threads with the crate's real atomics, meant to be
//! run under ThreadSanitizer (or Miri). No harness lock, Arc or channel sits between the model
//! threads (only spawn/join), and the default System allocator is used, so no harness
//! synchronisation can hide a race. Programs are derived from a seed with a tiny LCG (the program, not
//! the OS schedule, is the reproducible unit: each program is printed before it runs).
//!
//!   sanit --seed S --programs N --reps R        run N generated programs R times each
//!   sanit --program 'repr;odd;h:ops|h:ops;final' --reps R
use bytes::{Bytes, BytesMut};
use std::sync::atomic::{AtomicUsize, Ordering};
use std::sync::Arc;

const N: usize = 12;
static STATIC_DATA: [u8; N] = [11, 22, 33, 44, 55, 66, 77, 88, 99, 110, 121, 132];

struct Owner {
    buf: Vec<u8>,
    drops: Arc<AtomicUsize>,
}
impl AsRef<[u8]> for Owner {
    fn as_ref(&self) -> &[u8] {
        &self.buf
    }
}
impl Drop for Owner {
    fn drop(&mut self) {
        self.drops.fetch_add(1, Ordering::Relaxed);
    }
}

enum H {
    B(Bytes, Vec<u8>),
    M(BytesMut, Vec<u8>),
}

#[derive(Clone, Debug)]
struct Program {
    repr: u8,
    threads: Vec<(u8, Vec<u8>)>,
    main_final: Vec<u8>,
}
impl Program {
    fn text(&self) -> String {
        format!(
            "{};{};{}",
            self.repr,
            self.threads.iter().map(|(h, o)| format!("{}:{}", h, o.iter().map(|x| x.to_string()).collect::<Vec<_>>().join(","))).collect::<Vec<_>>().join("|"),
            self.main_final.iter().map(|x| x.to_string()).collect::<Vec<_>>().join(",")
        )
    }
    fn parse(s: &str) -> Option<Program> {
        let p: Vec<&str> = s.split(';').collect();
        if p.len() != 3 {
            return None;
        }
        let nums = |t: &str| -> Vec<u8> { t.split(',').filter(|x| !x.is_empty()).filter_map(|x| x.parse().ok()).collect() };
        let threads = p[1].split('|').filter(|x| !x.is_empty()).map(|t| {
            let (h, o) = t.split_once(':').unwrap_or((t, ""));
            (h.parse().unwrap_or(0), nums(o))
        }).collect();
        Some(Program { repr: p[0].parse().ok()?, threads, main_final: nums(p[2]) })
    }
}

fn fail(msg: String) -> ! {
    eprintln!("FUNCTIONAL-VIOLATION {}", msg);
    std::process::exit(65);
}

fn check(b: &[u8], e: &[u8], what: &str) {
    if b != e {
        fail(format!("{}: read {:02x?}, expected {:02x?}", what, &b[..b.len().min(12)], &e[..e.len().min(12)]));
    }
}

fn run_op(hs: &mut Vec<H>, base: Option<&Bytes>, base_expect: &[u8], op: u8) {
    match op % 14 {
        0 => {
            if let Some(b) = base {
                let c = b.clone();
                if c.as_ptr() != b.as_ptr() {
                    fail("clone through &Bytes at another address".into());
                }
                hs.push(H::B(c, base_expect.to_vec()));
            }
        }
        13 => {
            if let Some(H::M(m, e)) = hs.last_mut() {
                if m.len() >= 2 {
                    let part = m.split_to(1);
                    check(&part[..], &e[..1], "split-off part");
                    e.remove(0);
                    drop(part);
                }
            }
        }
        1 => {
            let mut add = None;
            if let Some(H::B(b, e)) = hs.last() {
                add = Some(H::B(b.clone(), e.clone()));
            }
            if let Some(a) = add {
                hs.push(a);
            }
        }
        2 => match hs.last() {
            Some(H::B(b, e)) => check(&b[..], e, "Bytes"),
            Some(H::M(b, e)) => check(&b[..], e, "BytesMut"),
            None => {
                if let Some(b) = base {
                    check(&b[..], base_expect, "&Bytes");
                }
            }
        },
        3 => {
            let mut add = None;
            if let Some(H::B(b, e)) = hs.last() {
                if b.len() >= 2 {
                    add = Some(H::B(b.slice(1..), e[1..].to_vec()));
                }
            }
            if let Some(a) = add {
                hs.push(a);
            }
        }
        4 => {
            hs.pop();
        }
        6 if matches!(hs.last(), Some(H::M(..))) => {
            if let Some(H::M(m, e)) = hs.pop() {
                let mut v = Vec::from(m);
                check(&v, &e, "Vec::from(BytesMut)");
                v.iter_mut().for_each(|x| *x ^= 0xFF);
            }
        }
        5 | 6 | 7 => {
            if !matches!(hs.last(), Some(H::B(..))) {
                return;
            }
            if let Some(H::B(b, e)) = hs.pop() {
                let p = b.as_ptr() as usize;
                match op % 14 {
                    5 => match b.try_into_mut() {
                        Ok(mut m) => {
                            check(&m[..], &e, "try_into_mut");
                            let mut e = e;
                            if m.as_ptr() as usize == p {
                                m.iter_mut().for_each(|x| *x ^= 0xFF);
                                e.iter_mut().for_each(|x| *x ^= 0xFF);
                            }
                            hs.push(H::M(m, e));
                        }
                        Err(b) => hs.push(H::B(b, e)),
                    },
                    6 => {
                        let mut v = Vec::from(b);
                        check(&v, &e, "Vec::from");
                        v.iter_mut().for_each(|x| *x ^= 0xFF);
                    }
                    _ => {
                        let mut m = BytesMut::from(b);
                        check(&m[..], &e, "BytesMut::from");
                        let mut e = e;
                        m.iter_mut().for_each(|x| *x ^= 0xFF);
                        e.iter_mut().for_each(|x| *x ^= 0xFF);
                        hs.push(H::M(m, e));
                    }
                }
            }
        }
        8 | 9 => {
            if let Some(H::M(m, e)) = hs.last_mut() {
                let want = if op % 14 == 8 { N } else { N / 2 + 1 };
                let ok = if op % 14 == 8 {
                    m.reserve(want);
                    true
                } else {
                    m.try_reclaim(want) || m.try_reclaim(want)
                };
                if ok {
                    check(&m[..], e, "after reserve");
                    for x in m.spare_capacity_mut().iter_mut() {
                        x.write(0xEE);
                    }
                }
            }
        }
        10 => {
            if let Some(H::B(b, e)) = hs.last_mut() {
                if b.len() > 1 {
                    b.truncate(1);
                    e.truncate(1);
                }
            }
        }
        12 => {
            if let Some(H::B(b, _)) = hs.last() {
                std::hint::black_box(b.is_unique());
            } else if hs.is_empty() {
                if let Some(b0) = base {
                    std::hint::black_box(b0.is_unique());
                }
            }
        }
        _ => {
            if !matches!(hs.last(), Some(H::M(..))) {
                return;
            }
            if let Some(H::M(m, e)) = hs.pop() {
                hs.push(H::B(m.freeze(), e));
            }
        }
    }
}

fn execute(p: &Program) {
    let expect: Vec<u8> = STATIC_DATA.to_vec();
    let drops = Arc::new(AtomicUsize::new(0));
    let mut tail: Option<BytesMut> = None;
    let (base, base_expect): (Bytes, Vec<u8>) = match p.repr % 5 {
        0 => (Bytes::from(expect.clone().into_boxed_slice()), expect.clone()),
        1 => {
            let mut v = Vec::with_capacity(N + 4);
            v.extend_from_slice(&expect);
            (Bytes::from(v), expect.clone())
        }
        2 => {
            let mut m = BytesMut::from(&expect[..]);
            tail = Some(m.split_off(N / 2));
            (m.freeze(), expect[..N / 2].to_vec())
        }
        3 => (Bytes::from_owner(Owner { buf: expect.clone(), drops: drops.clone() }), expect.clone()),
        _ => (Bytes::from_static(&STATIC_DATA), expect.clone()),
    };
    let mut base_slot = Some(base);
    let mut tail_expect = expect[N / 2..].to_vec();
    let mut locals: Vec<(bool, Vec<H>, Vec<u8>)> = Vec::new();
    let mut any_ref = false;
    for (hk, ops) in &p.threads {
        let mut hs = Vec::new();
        let mut is_ref = false;
        match hk % 5 {
            0 => {
                if let Some(b) = base_slot.as_ref() {
                    hs.push(H::B(b.clone(), base_expect.clone()));
                }
            }
            1 => {
                is_ref = true;
                any_ref = true;
            }
            2 | 3 => {
                if let Some(t) = tail.take() {
                    if hk % 5 == 2 {
                        hs.push(H::M(t, std::mem::take(&mut tail_expect)));
                    } else {
                        hs.push(H::B(t.freeze(), std::mem::take(&mut tail_expect)));
                    }
                } else if let Some(b) = base_slot.as_ref() {
                    hs.push(H::B(b.clone(), base_expect.clone()));
                }
            }
            _ => {
                if !any_ref && !p.threads.iter().any(|t| t.0 % 5 == 1) {
                    if let Some(b) = base_slot.take() {
                        hs.push(H::B(b, base_expect.clone()));
                    }
                }
            }
        }
        locals.push((is_ref, hs, ops.clone()));
    }
    drop(tail);
    let base_ref = base_slot.as_ref();
    let be = &base_expect;
    std::thread::scope(|s| {
        for (is_ref, hs, ops) in locals {
            s.spawn(move || {
                let mut hs = hs;
                let b = if is_ref { base_ref } else { None };
                for o in ops {
                    run_op(&mut hs, b, be, o);
                }
                for h in hs {
                    drop(h);
                }
            });
        }
    });
    let mut hs = Vec::new();
    if let Some(b) = base_slot.take() {
        hs.push(H::B(b, base_expect.clone()));
    }
    for o in &p.main_final {
        run_op(&mut hs, None, &base_expect, *o);
    }
    drop(hs);
    if p.repr % 5 == 3 && drops.load(Ordering::Relaxed) != 1 {
        fail(format!("owner dropped {} times", drops.load(Ordering::Relaxed)));
    }
}

struct Lcg(u64);
impl Lcg {
    fn next(&mut self, n: u64) -> u64 {
        self.0 = self.0.wrapping_mul(6364136223846793005).wrapping_add(1442695040888963407);
        (self.0 >> 33) % n
    }
}

fn gen(r: &mut Lcg, max_threads: u64, max_ops: u64) -> Program {
    let repr = r.next(5) as u8;
    let nt = 2 + r.next(max_threads - 1);
    let mut threads = Vec::new();
    let mut took_base = false;
    let mut took_tail = false;
    let mut any_ref = false;
    for _ in 0..nt {
        let kinds: &[u8] = match repr {
            2 => &[0, 1, 2, 3, 4],
            4 => &[0, 1],
            _ => &[0, 1, 4],
        };
        let mut h = kinds[r.next(kinds.len() as u64) as usize];
        if h == 4 && (took_base || any_ref) {
            h = 0;
        }
        if (h == 2 || h == 3) && took_tail {
            h = 0;
        }
        if h == 1 && took_base {
            h = 0;
        }
        took_base |= h == 4;
        took_tail |= h == 2 || h == 3;
        any_ref |= h == 1;
        let alpha: &[u8] = match h {
            1 => &[0, 2, 4, 5, 6, 3, 12],
            2 => &[2, 8, 9, 4, 11],
            _ => &[1, 2, 3, 4, 5, 6, 7, 10, 12],
        };
        let n = r.next(max_ops + 1);
        threads.push((h, (0..n).map(|_| alpha[r.next(alpha.len() as u64) as usize]).collect()));
    }
    let main_final = if took_base || r.next(2) == 0 { vec![] } else { vec![[2u8, 5, 6, 7][r.next(4) as usize]] };
    Program { repr, threads, main_final }
}

fn main() {
    let a: Vec<String> = std::env::args().collect();
    let get = |k: &str, d: u64| -> u64 { a.iter().position(|x| x == k).and_then(|i| a.get(i + 1)).and_then(|v| v.parse().ok()).unwrap_or(d) };
    let reps = get("--reps", 100);
    if let Some(i) = a.iter().position(|x| x == "--program") {
        let p = Program::parse(&a[i + 1]).expect("bad program");
        eprintln!("PROGRAM {}", p.text());
        for _ in 0..reps {
            execute(&p);
        }
        println!("OK programs=1 executions={}", reps);
        return;
    }
    let seed = get("--seed", 1);
    let n = get("--programs", 100);
    let mut r = Lcg(seed.wrapping_mul(0x9E3779B97F4A7C15) ^ 0xD1B54A32D192ED03);
    for _ in 0..n {
        let p = gen(&mut r, get("--max-threads", 4), get("--max-ops", 6));
        eprintln!("PROGRAM {}", p.text());
        for _ in 0..reps {
            execute(&p);
        }
    }
    println!("OK programs={} executions={}", n, n * reps);
}
