#!/bin/bash
# Line coverage of /repo/src reached by the engines' generators (a generator health measurement, not a check):
# builds the engine with -C instrument-coverage (nightly, for its llvm-tools) into a scratch target dir, runs a
# reduced version of every quick job single-process, and lists the lines of the crate no generated case executed.
# usage: tools/coverage.sh [outdir]   (scratch under /tmp/vcov, removed at the end)
set -e
OUT=${1:-/tmp/vcov-report}
T=/tmp/vcov
BIN=$HOME/.rustup/toolchains/nightly-x86_64-unknown-linux-gnu/lib/rustlib/x86_64-unknown-linux-gnu/bin
export CARGO_NET_OFFLINE=true
rm -rf $T; mkdir -p $T/prof $OUT
cd /verif/engine
RUSTFLAGS="-C instrument-coverage" cargo +nightly build --offline --profile rel --features bstd,bserde --target-dir $T/target 2>&1 | tail -2
VF=$T/target/rel/vf
run() { LLVM_PROFILE_FILE="$T/prof/%p-%m.profraw" timeout 1200 $VF "$@" --seed ${VERIF_SEED:-1} > $T/last.out 2>&1 || { echo "job $* -> rc $?"; tail -3 $T/last.out; }; }
run hist --prop C01 --cases 6000 --enum-len 2 &
run buf --prop C09 --cases 20000 &
run buf --prop C10 --cases 20000 &
run buf --prop C12 --cases 20000 &
run bufmut --prop C11 --cases 20000 &
run tbl --prop C14 --cases 1000 &
run tbl --prop C15 --cases 1000 &
run fault --cases 20000 &
run recycle --cases 60 --rounds 2000 &
wait
$BIN/llvm-profdata merge -sparse $T/prof/*.profraw -o $T/all.profdata
$BIN/llvm-cov report $VF -instr-profile=$T/all.profdata /repo/src 2>/dev/null | tee $OUT/summary.txt | tail -25
$BIN/llvm-cov show $VF -instr-profile=$T/all.profdata /repo/src --show-line-counts-or-regions=false 2>/dev/null > $OUT/show.txt
# uncovered executable lines: count column is 0
awk '/^\/repo\/src/ {f=$0} /^ +[0-9]+\| +0\|/ {print f " " $0}' $OUT/show.txt > $OUT/uncovered.txt
# uncovered code regions (finer than lines: an untaken branch inside an executed line)
$BIN/llvm-cov export $VF -instr-profile=$T/all.profdata /repo/src 2>/dev/null > $OUT/export.json
python3 - $OUT <<'PY'
import json,sys
out=sys.argv[1]
d=json.load(open(out+'/export.json'))
rows=[]
for f in d['data'][0]['functions']:
    for r in f['regions']:
        l1,c1,l2,c2,cnt,fid,efid,kind=r
        if cnt==0 and kind==0 and f['filenames'][fid].startswith('/repo/src/'):
            rows.append((f['filenames'][fid],l1,c1,l2,c2))
# a region is uncovered only if no instantiation of the function covered it
cov=set()
for f in d['data'][0]['functions']:
    for r in f['regions']:
        l1,c1,l2,c2,cnt,fid,efid,kind=r
        if cnt>0 and kind==0: cov.add((f['filenames'][fid],l1,c1,l2,c2))
rows=sorted(set(rows)-cov)
src={}
with open(out+'/uncovered_regions.txt','w') as o:
    for fn,l1,c1,l2,c2 in rows:
        if fn not in src: src[fn]=open(fn).read().split('\n')
        text=src[fn][l1-1].strip()[:110]
        o.write(f"{fn[len('/repo/src/'):]}:{l1}:{c1}-{l2}:{c2}  {text}\n")
print(len(rows),'uncovered regions ->',out+'/uncovered_regions.txt')
PY
wc -l $OUT/uncovered.txt
rm -rf $T
