#!/usr/bin/env python3
"""Sensitivity harness: applies seeded mutants to a scratch copy of /repo and runs checks from a
scratch copy of /verif against it (never touches /repo).  Usage:
   tools/mutants.py [--only id1,id2] [--props C01,C02] [--tier quick] [--keep]
Mutants are defined in tools/mutants_list.py as dicts {id, file, old, new, props}.
"""
import os, sys, subprocess, shutil, json, time
HERE = os.path.dirname(os.path.abspath(__file__))
sys.path.insert(0, HERE)
from mutants_list import MUTANTS
SCR = os.environ.get("VMUT_DIR", "/tmp/vmut")

def sh(cmd, **k):
    return subprocess.run(cmd, shell=True, stdout=subprocess.PIPE, stderr=subprocess.STDOUT, text=True, **k)

def setup():
    os.makedirs(SCR, exist_ok=True)
    repo = os.path.join(SCR, "repo")
    if not os.path.isdir(repo):
        sh("rsync -a --exclude target --exclude .git /repo/ %s/" % repo)
    else:
        sh("rsync -a --delete --exclude target --exclude .git /repo/ %s/" % repo)
    ver = os.path.join(SCR, "verif")
    sh("rsync -a --delete --exclude target --exclude 'target-*' --exclude .git --exclude .work --exclude evidence --exclude replays /verif/ %s/" % ver)
    # point every path dependency at the scratch repo
    for root, _, files in os.walk(ver):
        for f in files:
            if f in ("Cargo.toml", "config.toml") or f.endswith(".py") or f == "check":
                p = os.path.join(root, f)
                s = open(p).read()
                if '"/repo"' in s or "'/repo'" in s or "/repo/" in s:
                    s = s.replace('"/repo"', '"%s"' % repo).replace("/repo/", repo + "/")
                    open(p, "w").write(s)
    return repo, ver

def main():
    only = None; props = None; tier = "quick"
    a = sys.argv[1:]
    if "--only" in a: only = a[a.index("--only")+1].split(",")
    if "--props" in a: props = a[a.index("--props")+1].split(",")
    if "--tier" in a: tier = a[a.index("--tier")+1]
    repo, ver = setup()
    results = []
    if "--patch" in a:
        # a seeded change given as a diff: apply with patch(1) to the scratch repo, run the checks, revert by re-syncing
        pf = a[a.index("--patch")+1]
        r = sh("patch -p1 < %s" % pf, cwd=repo)
        if r.returncode != 0:
            print("patch failed:", r.stdout); return
        for prop in (props or []):
            t0 = time.time()
            r = sh("./check %s %s" % (prop, tier), cwd=ver, env=dict(os.environ, VERIF_SEED=os.environ.get("VERIF_SEED", "1")))
            out = r.stdout
            viol = [l for l in out.splitlines() if l.startswith("VIOLATION")]
            detail = [l for l in out.splitlines() if l.startswith("  # ")][:1]
            status = "CAUGHT" if r.returncode == 1 and viol else ("exit2" if r.returncode == 2 else "MISSED")
            print("%-34s %-4s %-7s %5.1fs %s" % (os.path.basename(os.path.dirname(pf)) or pf, prop, status, time.time()-t0, detail[0][:200] if detail else ""), flush=True)
            if status == "exit2":
                print("   " + "\n   ".join(out.splitlines()[-6:]))
        sh("rsync -a --delete --exclude target --exclude .git /repo/ %s/" % repo)
        shutil.rmtree(os.path.join(ver, "replays"), ignore_errors=True)
        return
    for m in MUTANTS:
        if only and m["id"] not in only: continue
        p = os.path.join(repo, m["file"])
        src = open(p).read()
        cnt = src.count(m["old"])
        if cnt != m.get("count", 1):
            print("MUTANT %s: pattern occurs %d times (expected %d) - skipped" % (m["id"], cnt, m.get("count", 1))); continue
        open(p, "w").write(src.replace(m["old"], m["new"]))
        try:
            for prop in (props or m["props"]):
                t0 = time.time()
                r = sh("./check %s %s" % (prop, tier), cwd=ver, env=dict(os.environ, VERIF_SEED=os.environ.get("VERIF_SEED", "1")))
                out = r.stdout
                viol = [l for l in out.splitlines() if l.startswith("VIOLATION")]
                detail = [l for l in out.splitlines() if l.startswith("  # ")][:1]
                status = "CAUGHT" if r.returncode == 1 and viol else ("exit2" if r.returncode == 2 else "MISSED")
                print("%-34s %-4s %-7s %5.1fs %s" % (m["id"], prop, status, time.time()-t0, detail[0][:150] if detail else ""), flush=True)
                if status == "exit2":
                    print("   " + "\n   ".join(out.splitlines()[-6:]))
                results.append((m["id"], prop, status))
        finally:
            open(p, "w").write(src)
            shutil.rmtree(os.path.join(ver, "replays"), ignore_errors=True)
    json.dump(results, open(os.path.join(SCR, "results.json"), "w"))
    if "--keep" not in a:
        pass
if __name__ == "__main__":
    main()
