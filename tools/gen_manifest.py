#!/usr/bin/env python3
"""Writes /verif/MANIFEST.json from the table below (kept next to checks_cfg.py so both stay in step)."""
import json, os, sys
ROOT = os.path.dirname(os.path.dirname(os.path.abspath(__file__)))
sys.path.insert(0, ROOT)
import checks_cfg as CFG

TXT = {
 "C01": ("model-based stateful PBT: bounded-exhaustive L<=2/3 histories + proptest random walks vs Vec<u8> value model",
         "Every generated history (all 17 start representations x reduced alphabet^2 exhaustively in the quick tier, ^3 in the thorough tier; plus >=10^6 random walks of up to 43 ops) "
         "is executed against an independent-Vec model; contents, len, as_ref, chunk/remaining of every live handle and every conversion result are compared after every step, in "
         "even and odd allocator parity and in a debug-assertions and a release-like build. Exploration, not proof: held on everything generated.", "3/C01"),
 "C02": ("same histories incl. out-of-contract / near-usize::MAX arguments under the oracle allocator (ledger, red zones, quarantine+poison, range containment), 4 configurations",
         "Layout-exact frees, double/wild frees, out-of-bounds writes (64-byte red zones), writes after free (poisoned quarantine), dangling or over-long handle ranges (checked against the ledger "
         "after every step, before anything is read through them) and process death are violations. Reads inside the crate that never surface are left to the ASan fuzz targets.", "3/C02"),
 "C03": ("ledger balance + orphan-block check every step + instrumented owners, over generated drop orders",
         "After every step: no live byte buffer without a referring handle, no owner dropped while a non-empty view lives, owner dropped once no handle of its lineage remains, as_ref called once; "
         "at the end of every history (survivors dropped in a generated permutation) the ledger must be empty (leak confirmed by re-execution).", "3/C03"),
 "C04": ("address-range invariants of every live BytesMut vs the ledger, boundary-valued reserve/try_reclaim arguments, spare-capacity fill",
         "Regions [ptr,ptr+cap) pairwise disjoint, disjoint from every non-empty Bytes, inside one live block, after every step; reserve/try_reclaim post-conditions incl. the must-panic rule for "
         "unrepresentable sizes; writes into all spare capacity made visible to the value model.", "3/C04"),
 "C07": ("pointer-relation + allocation-event oracle per listed zero-copy op over generated histories",
         "For each listed op the result address must equal source address + logical offset (for split_off/split_to also when empty) and the bracket around the call must contain no align-1 allocation.", "3/C07"),
 "C08": ("three-valued uniqueness oracle from the set of live handles per ledger block, evaluated on every Bytes after every step",
         "is_unique must be false for static/owner data or when another non-empty handle lies in the same block, true when no other handle lies in the block; try_into_mut Ok iff is_unique was true and then same "
         "memory without a byte-buffer allocation; an empty BytesMut alone on its block must reclaim any n <= block size (try_reclaim true, reserve without allocating). Cases the statement leaves open are left open.", "3/C08"),
 "C09": ("adapter trees x fragmentations x op sequences vs flat sequence model (proptest, recursive strategy)", "See coverage.rule. Exploration over generated trees to depth 4 (+ in-place wraps).", "3/C09"),
 "C10": ("enumerated method x nbytes x cut x shortfall table + random trees vs independent from_*_bytes-style decoder", "See coverage.rule. The nbytes / cut / shortfall sub-space is enumerated, the rest sampled.", "3/C10"),
 "C11": ("write-target trees with guard bytes vs expected byte streams, enumerated putter table, read-back through get_X", "See coverage.rule.", "3/C11"),
 "C12": ("structural reference model of Take/Limit/Chain/Reader/Writer, tree walk (limit/get_ref/first_ref/last_ref) after every op, into_inner at the end", "See coverage.rule.", "3/C12"),
 "C13": ("fault enumeration: out-of-contract arguments at every history position, state compared after unwinding, history continues under all oracles",
         "Each op has an allowed-outcome set computed from the model only (must panic / documented no-op / ok). After a caught panic every handle must have its previous len, capacity and contents; the history continues "
         "and must end with an empty ledger. Exhaustive for L<=2/3 over the boundary alphabet (which contains len+1, cap+1, usize::MAX, isize::MAX+k selectors), random beyond; debug and release-like builds.", "3/C13"),
 "C14": ("exhaustive small universe x every comparison impl (UFCS, both operand orders, 7 methods) x representations vs slice semantics; call-by-call hash comparison", "See coverage.rule.", "3/C14"),
 "C15": ("exhaustive 0/1/2-byte strings + random; independent byte-string-literal parser, hex checker, serde entry-point round trips", "See coverage.rule.", "3/C15"),
 "C16": ("metamorphic differential: identical generated histories / typed reads in 12 configurations, per-step digests must be equal", "See coverage.rule.", "3/C16"),
 "C17": ("fault enumeration: scripted lies/panics in user Buf / AsRef / Iterator / SeqAccess impls x every consuming entry point, under the oracle allocator", "See coverage.rule.", "3/C17"),
 "C18": ("long periodic / seeded-random recycle histories; allocator counters (peak live bytes, byte-buffer allocations) vs constants independent of the number of rounds", "See coverage.rule.", "3/C18"),
 "C05": ("generated small multi-threaded programs x enumerated / random schedules (every crate atomic is a scheduling point via a patched portable-atomic), functional oracle", "See coverage.rule.", "3/C05"),
 "C06": ("vector-clock happens-before checker over the orderings the crate requested, on the C05 executions; ThreadSanitizer cross-check on real threads", "See coverage.rule.", "3/C06"),
}
NOTE = {
 "hist": "Trusted: oracle allocator + Vec<u8> model + per-op expectation table (engine/src/hist*.rs); 64-bit LE host; allocation band (1 MiB, isize::MAX] excluded by construction.",
 "buf": "Trusted: flat/structural reference models in engine/src/bufeng.rs; state after a contract panic is treated as unspecified.",
 "bufmut": "Trusted: expected-byte-stream model in engine/src/bufmut.rs; values reduced to the written width.",
 "tbl": "Trusted: core slice semantics; the byte-string-literal grammar of the Rust reference; serde / serde_test / serde_json.",
 "fault": "Trusted: oracle allocator; lying impls only hand out slices of memory they own (BufMut, an unsafe trait, is not lied about).",
 "recycle": "Trusted: allocator counters; bound constants derived from the documented growth policy (DESIGN 3/C18), audited through the published ratios.",
 "cfgdiff": "Trusted: digest function; the feature-set comparison is restricted to API present in all three feature sets.",
 "conc": "Trusted: baton scheduler + portable-atomic shim (conc/pa-shim) + vector-clock rules; interleavings of atomic steps in which plain loads may additionally be given an older value that the C11 coherence rules allow (bounded per execution; the layer is re-validated by litmus programs on every worker); TSan / Miri side runs in the C06 check.",
}

def main():
    props = [json.loads(l) for l in open(os.path.join(ROOT, "properties.jsonl"))]
    checks = []
    na = []
    for p in props:
        pid = p["id"]
        if pid in CFG.CHECKS:
            cfg = CFG.CHECKS[pid]
            tech, text, ref = TXT[pid]
            checks.append({
                "property_id": pid,
                "quick_cmd": "./check %s quick" % pid,
                "thorough_cmd": "./check %s thorough" % pid,
                "evidence_file": "/verif/evidence/%s.json" % pid,
                "replay_cmd_template": "./check %s --replay {path}" % pid,
                "engine": cfg["engine"],
                "level_claimed": {"category": cfg["level"], "text": text, "design_ref": "DESIGN.md section " + ref},
                "level_note": NOTE.get(cfg["engine"], ""),
                "technique": "property-based testing / fuzzing: " + tech,
            })
        else:
            na.append({"property_id": pid, "reason": "check not built yet (work in progress, see DESIGN.md section 7)"})
    m = {
        "version": 1,
        "setup_cmd": "./setup.sh",
        "hooks": {"guard": "tokio_rs_bytes_verif",
                  "enable": "no source hooks exist: the crate's atomics are reached through its own extra-platforms feature plus a [patch] of portable-atomic inside /verif/conc; all other checks use the public API",
                  "baseline_off_cmd": "cd /repo && cargo test --workspace --no-fail-fast --offline",
                  "source_commits": [], "add_only": True},
        "engines": [
            {"name": "vf", "path": "engine/", "serves_properties": ["C01", "C02", "C03", "C04", "C07", "C08", "C09", "C10", "C11", "C12", "C13", "C14", "C15", "C16", "C17", "C18"],
             "kind_free_text": "Rust harness binary (proptest + bounded-exhaustive enumerators) with the oracle allocator as #[global_allocator]; sub-commands hist, buf, bufmut, tbl, fault, recycle, digest"},
            {"name": "conc", "path": "conc/", "serves_properties": ["C05", "C06"], "kind_free_text": "controlled-schedule runner: portable-atomic shim + baton scheduler + vector clocks"},
            {"name": "fuzz", "path": "fuzz/", "serves_properties": ["C01", "C02", "C09", "C10", "C11", "C17"], "kind_free_text": "cargo-fuzz / libFuzzer + ASan targets decoding bytes into the same case languages"},
            {"name": "check", "path": "check", "serves_properties": [c["property_id"] for c in checks], "kind_free_text": "python3 driver: build from /repo working tree, fan-out, crash triage, known findings, evidence"},
        ],
        "checks": checks,
        "notes": "Every check is decided by generated-input search against an explicit oracle (see DESIGN.md). VERIF_SEED selects the random streams; bounded-exhaustive parts do not depend on it. "
                 "Five genuine defects were found and repaired with fix: commits in /repo (known_findings.json, DESIGN.md sections 5 and 9.3).",
        "not_applicable": na,
    }
    json.dump(m, open(os.path.join(ROOT, "MANIFEST.json"), "w"), indent=1)
    print("claimed:", [c["property_id"] for c in checks], "not yet:", [n["property_id"] for n in na])

if __name__ == "__main__":
    main()
