#!/bin/bash
# usage: tools/verify_seed.sh <ID> <out-dir-with-patch.diff+demo.rs>
# confirms: patch applies; crate builds; existing suite passes with it; demo fails with it and passes without it.
ID=$1; OUT=$2; W=/tmp/seedv/$ID
export CARGO_NET_OFFLINE=true
rm -rf $W; git -C /repo worktree prune; git -C /repo worktree add -q --detach $W HEAD || exit 2
cd $W
cp $OUT/demo.rs tests/seed_demo_$ID.rs
echo "== demo WITHOUT patch"; cargo test --offline --target-dir $W/target --test seed_demo_$ID 2>&1 | grep -E "^test result|^error" | head -3
git apply $OUT/patch.diff || { echo "PATCH DOES NOT APPLY"; exit 2; }
echo "== demo WITH patch"; cargo test --offline --target-dir $W/target --test seed_demo_$ID 2>&1 | grep -E "^test result|^error" | head -3
rm tests/seed_demo_$ID.rs
echo "== suite WITH patch (a binary that dies shows up as a signal line and a lower total than 1227)"; cargo test --offline --target-dir $W/target --no-fail-fast 2>&1 | grep -E "^test result|signal:|error: test failed" | awk '/^test result/ {p+=$4; f+=$6} /signal:|error: test failed/ {print "   " $0; bad=1} END {print "passed",p,"failed",f, (bad ? "TEST BINARY FAILED" : "")}'
cd /; git -C /repo worktree remove --force $W
