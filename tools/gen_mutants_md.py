#!/usr/bin/env python3
"""Regenerates MUTANTS.md from the log of a full `tools/mutants.py` run.

usage: tools/gen_mutants_md.py <log file>   (e.g. /tmp/mut_full.log)
Equivalence explanations are kept in tools/mutant_notes.json (key "<mutant>/<check>"); a MISSED pair without a note is
printed as MISSED so that it gets looked at."""
import json, os, re, sys

ROOT = os.path.dirname(os.path.dirname(os.path.abspath(__file__)))
sys.path.insert(0, os.path.join(ROOT, "tools"))
from mutants_list import MUTANTS  # noqa: E402

notes = json.load(open(os.path.join(ROOT, "tools", "mutant_notes.json")))
files = {m["id"]: m["file"] for m in MUTANTS}
order = {m["id"]: i for i, m in enumerate(MUTANTS)}
rows = {}
for l in open(sys.argv[1], errors="replace"):
    m = re.match(r"^(\S+)\s+(C\d\d)\s+(CAUGHT|MISSED|exit2)\s+([\d.]+)s\s*(.*)$", l)
    if not m or m.group(1) not in files:
        continue
    mid, prop, status, _, detail = m.groups()
    oracle = ""
    mo = re.search(r"#\s*(?:C\d\d\s*)?\[([^\]]+)\]", detail)
    if mo:
        oracle = mo.group(1)
    elif detail.startswith("#"):
        oracle = detail[1:].strip()[:90]
    rows[(mid, prop)] = (status, oracle)

caught = sum(1 for v in rows.values() if v[0] == "CAUGHT")
missed = [(k, v) for k, v in rows.items() if v[0] != "CAUGHT"]
equiv = [k for k, _ in missed if "/".join(k) in notes]
unexplained = [k for k, _ in missed if "/".join(k) not in notes]
mutants_run = sorted({k[0] for k in rows}, key=lambda x: order[x])
fully_missed = [m for m in mutants_run if not any(rows[k][0] == "CAUGHT" for k in rows if k[0] == m)]
out = []
out.append("# Seeded single-site mutants and what flags them\n")
out.append("Produced by `tools/mutants.py` (scratch copies under /tmp, never /repo) with `./check <ID> quick`, VERIF_SEED=1, and rendered by "
           "`tools/gen_mutants_md.py`. `CAUGHT` = exit 1 with a VIOLATION line; the oracle that fired is shown. `equivalent` = the listed check "
           "stays silent and the reason why the mutant does not change behaviour covered by that statement is given (`tools/mutant_notes.json`).")
out.append("Mutant definitions (file, old text, new text): `tools/mutants_list.py`. %d mutants run, %d (mutant, check) pairs: %d caught, %d equivalent (explained), %d unexplained misses. "
           "Mutants caught by none of their listed checks (each explained as equivalent in its row): %s.\n" % (len(mutants_run), len(rows), caught, len(equiv), len(unexplained), ", ".join(fully_missed) or "none"))
out.append("| mutant | file | check | result | oracle / note |")
out.append("|---|---|---|---|---|")
for (mid, prop) in sorted(rows, key=lambda k: (order[k[0]], k[1])):
    status, oracle = rows[(mid, prop)]
    key = mid + "/" + prop
    if status != "CAUGHT" and key in notes:
        status, oracle = ("inconclusive here" if notes[key].startswith("inconclusive") else "equivalent"), notes[key]
    elif status == "exit2":
        status = "inconclusive (exit 2)"
    out.append("| %s | %s | %s | %s | %s |" % (mid, files[mid], prop, status, oracle.replace("|", "/")))
open(os.path.join(ROOT, "MUTANTS.md"), "w").write("\n".join(out) + "\n")
print("mutants", len(mutants_run), "pairs", len(rows), "caught", caught, "equivalent", len(equiv), "unexplained", unexplained)
